"""C12 -- degree/size requests resolve to the smallest supported angular grid not below.

Decided for *all* integers by rule (proof obligations over the literal tables and one idiom),
not by sweeping values:

O1 every *_NPOINTS table has strictly ascending keys and strictly ascending values (insertion
   order), so ``list(T.keys())`` of the table and of its inverse are sorted;
O2 every *_DEGREES table is an exact inversion idiom of its *_NPOINTS table;
O3 in ``_get_degree_and_size`` both branches (degree, size): the key list is ``list(T.keys())`` of
   the dispatched table, out-of-range requests raise, the lookup is an accepted lower-bound idiom,
   and the function returns the matching pair;
O4 for every pair a data file exists (shared with C02.R1 -- file-exists only);
O5 ``convert_angular_sizes_to_degrees`` maps each distinct size through the resolver and writes
   the result at exactly the positions holding that size;
O6 ``AngularGrid.__init__`` passes the request on, stores the resolved degree; ``AtomGrid`` stores
   the resolved degrees.
"""
from __future__ import annotations

import ast
import os

from gridlint import e4
from gridlint.core import AnalysisError, Report, norm, strip_docstring
from gridlint.props.c02 import AngularModel
from gridlint.props.common import get_repo

PROP = "C12"
EXPLANATION = (
    "Proof by rule over literal tables: (O1) each size->degree table folded from the source is "
    "strictly ascending in keys and values, (O2) each degree->size table is a recognised inversion "
    "idiom of it, (O3) the resolver bisects list(T.keys()) of the dispatched table with "
    "bisect_left (or an equivalent accepted lower-bound idiom) behind a range guard and returns "
    "the matching pair.  O1 and O3 together imply, for every integer request 0..max, that the "
    "result is min{k in table : k >= request}; requests above max raise.  (O4) every pair has its "
    "data file, (O5) the sequence converter is element-wise consistent, (O6) the constructors "
    "store the resolved values; no validation guard of the resolver is certainly true for a request "
    "of exactly zero (three-valued evaluation).  No lookup is executed.")
RULE = "one obligation per table (O1,O2), per lookup branch (O3 x5 sub-obligations), per table entry (O4), per site (O5,O6)"


def _strictly_ascending(seq):
    return all(a < b for a, b in zip(seq, seq[1:]))


def obligations_tables(rep, repo, m):
    mi = m.mi
    for key in m.methods():
        dn, nn = m.tables_for(key, "_get_degree_and_size")
        T = m.tables[nn]
        ks, vs = list(T.keys()), list(T.values())
        where = repo.rel("angular", mi.globals[nn])
        for what, seq in (("keys", ks), ("values", vs)):
            if not all(isinstance(x, int) and not isinstance(x, bool) and x >= 0 for x in seq):
                rep.violation("O1.table-sorted", f"angular.{nn}", what, f"{nn} {what} are not all non-negative integers", where)
            elif _strictly_ascending(seq):
                rep.ok("O1.table-sorted", f"angular.{nn}.{what}", where, f"{len(seq)} entries strictly ascending")
            else:
                i = next(i for i, (a, b) in enumerate(zip(seq, seq[1:])) if not a < b)
                rep.violation("O1.table-sorted", f"angular.{nn}", what,
                              f"{what} of {nn} are not strictly ascending in insertion order at position {i} "
                              f"({seq[i]} then {seq[i + 1]}): bisecting list(keys()) returns a wrong grid for "
                              f"requests near that entry", where)
        # O2 inversion idiom
        node = mi.globals[dn]
        if e4.is_inversion_of(node, nn):
            rep.ok("O2.inverse-table", f"angular.{dn}", repo.rel("angular", node), f"inversion idiom of {nn}")
        else:
            # not the idiom: accept only if it folds to the exact inverse
            D = m.tables[dn]
            if D == {v: k for k, v in T.items()} and list(D.keys()) == list(T.values()):
                rep.ok("O2.inverse-table", f"angular.{dn}", repo.rel("angular", node),
                       f"literal table equal to the inverse of {nn}, same order")
            else:
                rep.violation("O2.inverse-table", f"angular.{dn}", nn,
                              f"{dn} is not the exact inverse of {nn} (same pairs, same order): degree and size "
                              f"reported for a grid are not a matching pair", repo.rel("angular", node))


ACCEPTED = ("keys[bisect_left(keys, x)]", "x if x in T else keys[bisect_left(keys, x)]",
            "np.searchsorted(keys, x, side='left')", "min(k for k in keys if k >= x)",
            "next(k for k in keys if k >= x)")


def _lookup_idiom(expr, keys_var, x, table):
    """Classify the lookup expression.  Returns ('ok'|'bad'|'unknown', description)."""
    # x if x in T else <lookup>
    if isinstance(expr, ast.IfExp):
        t = expr.test
        if isinstance(t, ast.Compare) and len(t.ops) == 1 and isinstance(t.ops[0], ast.In) and \
                norm(t.left) == x and norm(t.comparators[0]) in (table, keys_var) and norm(expr.body) == x:
            inner = _lookup_idiom(expr.orelse, keys_var, x, table)
            if inner[0] == "bad" and "bisect_right" in inner[1] and "offset" not in inner[1]:
                # bisect_right in the else of a membership test: x is not a key, so left == right
                return ("ok", "membership test, then bisect_right (x not a key => same as bisect_left)")
            return inner
        return ("unknown", norm(expr))
    if isinstance(expr, ast.Subscript) and norm(expr.value) == keys_var:
        idx = expr.slice
        if isinstance(idx, ast.Call):
            fn = norm(idx.func)
            a = [norm(z) for z in idx.args]
            kw = {k.arg: norm(k.value) for k in idx.keywords}
            if fn in ("bisect_left", "bisect.bisect_left") and a[:2] == [keys_var, x] and len(a) == 2 and not kw:
                return ("ok", "keys[bisect_left(keys, x)]")
            if fn in ("bisect_right", "bisect.bisect_right", "bisect", "bisect.bisect") and a[:2] == [keys_var, x]:
                return ("bad", "bisect_right: an exact request is mapped to the next larger grid")
            if fn in ("np.searchsorted", "numpy.searchsorted") and a[:2] == [keys_var, x]:
                side = kw.get("side", "'left'")
                if side == "'left'":
                    return ("ok", "keys[np.searchsorted(keys, x, side='left')]")
                return ("bad", "searchsorted(side='right'): an exact request is mapped to the next larger grid")
        if isinstance(idx, ast.BinOp) and isinstance(idx.left, ast.Call) and "bisect" in norm(idx.left.func):
            return ("bad", f"index offset on the bisect result (`{norm(idx)}`): wrong neighbour selected")
        return ("unknown", norm(expr))
    if isinstance(expr, ast.Call) and norm(expr.func) in ("min", "next") and len(expr.args) >= 1 and \
            isinstance(expr.args[0], ast.GeneratorExp):
        g = expr.args[0]
        if len(g.generators) == 1 and norm(g.generators[0].iter) in (keys_var, table) and len(g.generators[0].ifs) == 1:
            c = g.generators[0].ifs[0]
            v = norm(g.generators[0].target)
            if norm(g.elt) == v and isinstance(c, ast.Compare) and len(c.ops) == 1:
                txt = norm(c)
                if txt in (f"{v} >= {x}", f"{x} <= {v}"):
                    return ("ok", f"{norm(expr.func)}(k for k in keys if k >= x)")
                if txt in (f"{v} > {x}", f"{x} < {v}"):
                    return ("bad", "strict comparison: an exact request is mapped to the next larger grid")
        return ("unknown", norm(expr))
    return ("unknown", norm(expr))


def _statement_form_lookup(bbody, keys_var, x, table):
    """`if x not in T: i = bisect_left(keys, x); x = keys[i]` (statement form of the idiom).
    Any further change of the position between the bisect and its use is a known-wrong shape: the
    result is no longer the smallest supported value not below the request."""
    for s in bbody:
        if not isinstance(s, ast.If):
            continue
        t = s.test
        if not (isinstance(t, ast.Compare) and len(t.ops) == 1 and isinstance(t.ops[0], ast.NotIn)
                and norm(t.left) == x and norm(t.comparators[0]) in (table, keys_var)) or s.orelse:
            continue
        pos = None
        use = None
        for st in s.body:
            if isinstance(st, ast.Assign) and isinstance(st.targets[0], ast.Name) and isinstance(st.value, ast.Call) \
                    and norm(st.value.func) in ("bisect_left", "bisect.bisect_left", "bisect_right", "bisect.bisect_right") \
                    and [norm(a) for a in st.value.args] == [keys_var, x]:
                pos = st
            if isinstance(st, ast.Assign) and norm(st.targets[0]) == x and isinstance(st.value, ast.Subscript) \
                    and norm(st.value.value) == keys_var:
                use = st
        if pos is None and use is not None:
            # `if x not in T: x = keys[<lookup>(keys, x)]` -- the conditional expression spelled as a statement
            verdict, desc = _lookup_idiom(use.value, keys_var, x, table)
            if verdict == "bad" and "bisect_right" in desc and "offset" not in desc:
                verdict, desc = "ok", "membership test, then bisect_right (x not a key => same as bisect_left)"
            return use, verdict, "if x not in T: x = " + desc
        if pos is None or use is None:
            continue
        iv = pos.targets[0].id
        if norm(use.value.slice) != iv:
            return use, "bad", f"`{norm(use)}` does not index with the bisect position `{iv}`"
        if "bisect_right" in norm(pos.value.func):
            return use, "ok", "membership test, then bisect_right (x not a key => same as bisect_left)"
        for st in s.body:
            if st is pos or st is use:
                continue
            for n in ast.walk(st):
                if isinstance(n, (ast.Assign, ast.AugAssign)):
                    tg = n.targets[0] if isinstance(n, ast.Assign) else n.target
                    if norm(tg) == iv and pos.lineno < n.lineno < use.lineno:
                        return use, "bad", (f"the bisect position is changed afterwards (`{norm(n)}` at line {n.lineno}): "
                                            f"the grid chosen is no longer the smallest supported one not below the request")
        return use, "ok", "if x not in T: i = bisect_left(keys, x); x = keys[i]"
    return None, None, None


def obligations_lookup(rep, repo, m):
    f = m.f_get
    body = f.node.body
    branches = []  # (var, table_var, body)
    for s in body:
        if isinstance(s, ast.If):
            cur = s
            while True:
                t = cur.test
                if isinstance(t, ast.Compare) and len(t.ops) == 1 and isinstance(t.ops[0], ast.IsNot) and \
                        isinstance(t.comparators[0], ast.Constant) and t.comparators[0].value is None and \
                        norm(t.left) in ("degree", "size") and \
                        any(isinstance(z, ast.Return) for b_ in cur.body for z in ast.walk(b_)):
                    # (an `x is not None` block that only validates x and returns nothing is not the look-up branch)
                    branches.append((norm(t.left), cur.body, cur))
                if len(cur.orelse) == 1 and isinstance(cur.orelse[0], ast.If):
                    cur = cur.orelse[0]
                else:
                    break
    got = {b[0] for b in branches}
    if len(got) == 1:
        # the other request as straight-line code after the first branch returned:
        #   if degree is not None: ...; return ...
        #   if size is None: raise ...
        #   <size branch>
        first = branches[0]
        top = list(body)
        other = ({"degree", "size"} - got).pop()
        if first[2] in top and first[1] and isinstance(first[1][-1], ast.Return):
            rest = top[top.index(first[2]) + 1:]
            for i, s in enumerate(rest):
                t = s.test if isinstance(s, ast.If) else None
                if t is not None and isinstance(t, ast.Compare) and len(t.ops) == 1 and isinstance(t.ops[0], ast.Is) and \
                        isinstance(t.comparators[0], ast.Constant) and t.comparators[0].value is None and \
                        norm(t.left) == other and s.body and isinstance(s.body[-1], ast.Raise) and not s.orelse:
                    branches.append((other, rest[i + 1:], s))
                    break
        got = {b[0] for b in branches}
    if got != {"degree", "size"}:
        raise AnalysisError(f"unrecognised idiom: _get_degree_and_size has no `degree is not None` / `size is not None` "
                            f"branches (found {sorted(got)})")
    vd, vn = m.var["_get_degree_and_size"]["degrees"], m.var["_get_degree_and_size"]["npoints"]
    expect_table = {"degree": vd, "size": vn}
    other_table = {"degree": vn, "size": vd}
    for x, bbody, node in branches:
        T = expect_table[x]
        cons = f"angular.AngularGrid._get_degree_and_size[{x}]"
        where = repo.rel("angular", node)
        keys_var = None
        max_var = None
        guard_ok = False
        lookup = None
        ret = None
        for s in bbody:
            if isinstance(s, ast.Assign) and len(s.targets) == 1 and isinstance(s.targets[0], ast.Name):
                tgt = s.targets[0].id
                v = norm(s.value)
                if v in (f"list({T}.keys())", f"list({T})", f"sorted({T})", f"sorted({T}.keys())"):
                    keys_var = tgt
                    keys_sorted_call = v.startswith("sorted")
                elif v in (f"list({other_table[x]}.keys())", f"list({other_table[x]})"):
                    rep.violation("O3.key-list", cons, "table",
                                  f"the {x} branch bisects the keys of {other_table[x]} instead of {T}", repo.rel("angular", s))
                    keys_var = tgt
                elif keys_var and v in (f"max({keys_var})", f"{keys_var}[-1]"):
                    max_var = tgt
                elif tgt == x:
                    lookup = s
            elif isinstance(s, ast.If):
                # range guard: raise when x < 0 or x > max
                txt = norm(s.test)
                raises = any(isinstance(z, ast.Raise) for z in s.body)
                if raises and max_var and (f"{x} > {max_var}" in txt or f"{max_var} < {x}" in txt):
                    guard_ok = True
                elif raises and max_var and (f"{x} >= {max_var}" in txt):
                    rep.violation("O3.range-guard", cons, "upper",
                                  f"the guard `{txt}` rejects the largest supported {x} itself", repo.rel("angular", s))
                    guard_ok = True
            elif isinstance(s, ast.Return):
                ret = s
        if keys_var is None:
            raise AnalysisError(f"unrecognised idiom in {cons}: no `list({T}.keys())` key list")
        rep.ok("O3.key-list", cons, where, f"{keys_var} = list({T}.keys())")
        if lookup is None:
            lookup, verdict, desc = _statement_form_lookup(bbody, keys_var, x, T)
            if lookup is None:
                raise AnalysisError(f"unrecognised idiom in {cons}: no assignment `{x} = <lookup>`")
        else:
            verdict, desc = _lookup_idiom(lookup.value, keys_var, x, T)
        if verdict == "ok":
            rep.ok("O3.lower-bound-idiom", cons, repo.rel("angular", lookup), desc)
        elif verdict == "bad":
            rep.violation("O3.lower-bound-idiom", cons, "lookup",
                          f"`{norm(lookup)[:110]}`: {desc}", repo.rel("angular", lookup))
        else:
            raise AnalysisError(f"unrecognised lookup idiom in {cons}: `{desc[:120]}` (accepted: {ACCEPTED})")
        if guard_ok:
            rep.ok("O3.range-guard", cons, where, f"raises when {x} > {max_var}")
        else:
            # out of range by construction is equally acceptable: keys[len(keys)] raises IndexError,
            # but only when the lookup really indexes with the bisect result
            if verdict == "ok" and ("bisect_left" in desc or "searchsorted" in desc):
                rep.ok("O3.range-guard", cons, where,
                       "no explicit guard; keys[bisect_left(keys, x)] is out of range for x > max (IndexError)")
            else:
                rep.violation("O3.range-guard", cons, "upper",
                              f"requests above the largest supported {x} are not rejected", where)
        # every exit of the branch passes through the look-up: an earlier return is accepted only as the exact hit
        # (`if x in T: return <matching pair>`); any other shortcut is outside what this rule can judge
        want = (("degree", f"{vd}[degree]") if x == "degree" else (f"{vn}[size]", "size"))
        for s in bbody:
            for sub in ast.walk(s):
                if not isinstance(sub, ast.If):
                    continue
                for r_ in [z for b_ in sub.body + sub.orelse for z in ast.walk(b_) if isinstance(z, ast.Return)]:
                    if r_ is ret:
                        continue
                    exact = norm(sub.test) in (f"{x} in {T}", f"{x} in {keys_var}", f"{x} in {T}.keys()") and r_ in sub.body and \
                        isinstance(r_.value, ast.Tuple) and tuple(norm(z) for z in r_.value.elts) == want
                    if not exact:
                        raise AnalysisError(f"unrecognised idiom in {cons}: `{norm(r_)[:60]}` under `{norm(sub.test)[:50]}` leaves the "
                                            f"branch without passing through the lower-bound look-up; cannot tell whether it "
                                            f"returns the smallest supported {x} not below the request")
        # returned pair
        if ret is None or not isinstance(ret.value, ast.Tuple) or len(ret.value.elts) != 2:
            raise AnalysisError(f"unrecognised idiom in {cons}: branch does not return a pair")
        a, b = (norm(z) for z in ret.value.elts)
        want = (("degree", f"{vd}[degree]") if x == "degree" else (f"{vn}[size]", "size"))
        if (a, b) == want:
            rep.ok("O3.matching-pair", cons, repo.rel("angular", ret), f"return {a}, {b}")
        else:
            rep.violation("O3.matching-pair", cons, "return",
                          f"returns ({a}, {b}); the matching pair of the table is ({want[0]}, {want[1]})",
                          repo.rel("angular", ret))
    # the degree branch must be tested before the size branch only matters when both are given
    return len(branches)


def _tri(test, env):
    """Three-valued truth of a validation guard under `env` (name -> int | None); unknown names are
    non-negative unknowns (table maxima)."""
    U = "unknown"

    def val(e):
        if isinstance(e, ast.Constant):
            return e.value
        if isinstance(e, ast.Name):
            return env.get(e.id, U)
        if isinstance(e, ast.UnaryOp) and isinstance(e.op, ast.USub):
            v = val(e.operand)
            return -v if isinstance(v, (int, float)) and not isinstance(v, bool) else U
        return U
    if isinstance(test, ast.BoolOp):
        ks = [_tri(v, env) for v in test.values]
        if isinstance(test.op, ast.Or):
            return True if True in ks else (None if None in ks else False)
        return False if False in ks else (None if None in ks else True)
    if isinstance(test, ast.UnaryOp) and isinstance(test.op, ast.Not):
        k = _tri(test.operand, env)
        return None if k is None else not k
    if isinstance(test, ast.Call) and norm(test.func) == "isinstance" and len(test.args) == 2 and \
            isinstance(test.args[0], ast.Name) and test.args[0].id in env:
        v = env[test.args[0].id]
        kinds = norm(test.args[1])
        if v is None:
            return False
        return True if "int" in kinds or "Integral" in kinds or "integer" in kinds else None
    if isinstance(test, ast.Name) and test.id in env:
        return bool(env[test.id])
    if isinstance(test, ast.Compare) and len(test.ops) == 1:
        a, b, op = val(test.left), val(test.comparators[0]), test.ops[0]
        if isinstance(op, (ast.Is, ast.IsNot)):
            if U in (a, b):
                return None
            return (a is b) == isinstance(op, ast.Is)
        if a is None or b is None:
            return None
        if U not in (a, b):
            import operator
            f_ = {ast.Lt: operator.lt, ast.LtE: operator.le, ast.Gt: operator.gt, ast.GtE: operator.ge,
                  ast.Eq: operator.eq, ast.NotEq: operator.ne}.get(type(op))
            return f_(a, b) if f_ else None
        # one side is a non-negative unknown
        if a == 0 and b == U and isinstance(op, ast.Gt):
            return False      # 0 > max
        if a == U and b == 0 and isinstance(op, ast.Lt):
            return False      # max < 0
        return None
    return None


def _raise_paths(body, conds=()):
    """(raise node, [(test node, polarity)]) for every `raise` of a statement list, with the branch
    conditions that lead to it; an earlier `if T: raise/return` adds (T, False) to what follows."""
    conds = list(conds)
    for s in body:
        if isinstance(s, ast.Raise):
            yield s, list(conds)
            return
        if isinstance(s, ast.Return):
            return
        if isinstance(s, ast.If):
            yield from _raise_paths(s.body, conds + [(s.test, True)])
            yield from _raise_paths(s.orelse, conds + [(s.test, False)])
            ends = lambda b: bool(b) and isinstance(b[-1], (ast.Raise, ast.Return))  # noqa: E731
            if ends(s.body) and not s.orelse:
                conds.append((s.test, False))
            elif s.orelse and ends(s.orelse) and not ends(s.body):
                conds.append((s.test, True))
            elif s.orelse and ends(s.orelse) and ends(s.body):
                return
        elif isinstance(s, (ast.With, ast.For, ast.While)):
            yield from _raise_paths(s.body, conds)
        elif isinstance(s, ast.Try):
            yield from _raise_paths(s.body, conds)


def obligations_zero(rep, repo, m):
    """Requests of exactly zero are admissible ("from zero up to the largest supported one"): no
    `raise` of the resolver may be reached with certainty by degree = 0 (size = None)
    or size = 0 (degree = None).  Guards are evaluated three-valued; table maxima are non-negative
    unknowns."""
    # (the loader only ever receives resolved pairs: what it does with a zero is immaterial)
    for f in (m.f_get,):
        for x, other in (("degree", "size"), ("size", "degree")):
            env = {x: 0, other: None}
            hit = None
            for node, conds in _raise_paths(strip_docstring(f.node.body)):
                vals = []
                for t_, pol in conds:
                    k = _tri(t_, env)
                    vals.append(None if k is None else (k if pol else not k))
                if conds and all(v is True for v in vals):
                    hit = (node, conds)
                    break
            if hit is None:
                rep.ok("O3.zero-request-accepted", f"AngularGrid.{f.name}[{x}=0]", f.loc(),
                       "no raise is certainly reached by a zero request")
            else:
                node, conds = hit
                rep.violation("O3.zero-request-accepted", f"angular.AngularGrid.{f.name}", f"{x}=0",
                              f"a request of {x} = 0 certainly reaches `{norm(node)[:70]}` (through "
                              f"`{norm(conds[-1][0])[:70]}`): zero is an admissible request and must resolve to the "
                              f"smallest supported grid", repo.rel("angular", node))


def obligations_files(rep, repo, m):
    n = 0
    for key in m.methods():
        dn, nn = m.tables_for(key)
        ddir = m.data_dir(key)
        listed = set(os.listdir(ddir)) if os.path.isdir(ddir) else set()
        for size, degree in m.tables[nn].items():
            n += 1
            fn = m.filename(key, degree, size)
            if fn in listed:
                rep.ok("O4.file-for-pair", f"{key}:{degree}:{size}", f"src/grid/data/{os.path.basename(ddir)}/{fn}")
            else:
                rep.violation("O4.file-for-pair", f"angular.{nn}", f"{key}:{degree}:{size}",
                              f"no data file {fn} for the supported pair (degree={degree}, size={size})",
                              f"src/grid/data/{os.path.basename(ddir)}/{fn}")
    return n


def obligations_converter(rep, repo, m):
    f = repo.method("AngularGrid", "convert_angular_sizes_to_degrees")
    cons = "angular.AngularGrid.convert_angular_sizes_to_degrees"
    loop = None
    for s in f.node.body:
        if isinstance(s, ast.Return):
            break  # anything after an unconditional return is dead code
        if isinstance(s, ast.For):
            loop = s
            break
    if loop is None:
        return _converter_vectorised(rep, repo, m, f, cons)
    it = norm(loop.iter)
    var = norm(loop.target)
    param = f.params[0]
    # the request sequence and its element-wise copies made before the loop
    copies = {param}
    for s in f.node.body:
        if s is loop:
            break
        if isinstance(s, ast.Assign) and isinstance(s.targets[0], ast.Name) and isinstance(s.value, ast.Call) and \
                norm(s.value.func) in ("np.array", "np.asarray", "np.copy", "list", "tuple") and s.value.args and \
                norm(s.value.args[0]) in copies:
            copies.add(s.targets[0].id)
    it_forms = set()
    for c_ in copies:
        it_forms |= {f"np.unique({c_})", f"set({c_})", f"sorted(set({c_}))", c_, f"np.unique({c_})[::-1]",
                     f"sorted(set({c_}), reverse=True)", f"reversed(np.unique({c_}))", f"reversed(sorted(set({c_})))"}
    if it not in it_forms:
        raise AnalysisError(f"unrecognised idiom: {cons} iterates over `{it}`")
    call = store = None
    unpacked = None   # `deg, _ = resolver(...)`: the first element of the returned pair
    for s in ast.walk(ast.Module(body=loop.body, type_ignores=[])):
        if isinstance(s, ast.Assign) and isinstance(s.value, ast.Subscript) and isinstance(s.value.value, ast.Call) \
                and norm(s.value.value.func).endswith("_get_degree_and_size"):
            call = s
        if isinstance(s, ast.Assign) and isinstance(s.value, ast.Call) and norm(s.value.func).endswith("_get_degree_and_size") \
                and isinstance(s.targets[0], ast.Tuple) and len(s.targets[0].elts) == 2:
            unpacked = s
    # a mask that is named first (`has_this_size = sizes == size; degrees[has_this_size] = deg`) stands for its expression
    named = {}
    for s in loop.body:
        if isinstance(s, ast.Assign) and len(s.targets) == 1 and isinstance(s.targets[0], ast.Name):
            named.setdefault(s.targets[0].id, []).append(s.value)
    for s in loop.body:  # the positional store into the result array is a top-level statement of the loop
        if isinstance(s, ast.Assign) and isinstance(s.targets[0], ast.Subscript):
            sl = s.targets[0].slice
            if isinstance(sl, ast.Name) and len(named.get(sl.id, [])) == 1:
                import copy
                s2 = copy.deepcopy(s)
                s2.targets[0].slice = copy.deepcopy(named[sl.id][0])
                s = ast.fix_missing_locations(s2)
                sl = s.targets[0].slice
            if any(isinstance(x, ast.Name) and x.id in copies for x in ast.walk(sl)):
                store = s
    if call is None and unpacked is not None:
        # normalise to the subscript form: <first target> = resolver(...)[0]
        call = ast.Assign(targets=[unpacked.targets[0].elts[0]],
                          value=ast.Subscript(value=unpacked.value, slice=ast.Constant(value=0), ctx=ast.Load()))
        ast.copy_location(call, unpacked)
        ast.fix_missing_locations(call)
    if call is None or store is None:
        raise AnalysisError(f"unrecognised idiom: {cons} loop body")
    c = call.value.value
    kw = {k.arg: norm(k.value) for k in c.keywords}
    pos = [norm(a) for a in c.args]
    g = m.f_get
    for i, a in enumerate(pos):
        kw[g.params[i]] = a
    idx = norm(call.value.slice)
    ok = kw.get("size") == var and kw.get("degree") == "None" and kw.get("method") == "method" and idx == "0"
    if ok:
        rep.ok("O5.converter-uses-resolver", cons, repo.rel("angular", call), norm(call)[:100])
    else:
        rep.violation("O5.converter-uses-resolver", cons, "call",
                      f"`{norm(call)[:120]}`: each distinct size must be resolved with "
                      f"_get_degree_and_size(degree=None, size=<that size>, method=method)[0]", repo.rel("angular", call))
    tgt = store.targets[0]
    sel = norm(tgt.slice)
    written = norm(tgt.value)
    good_sel = set()
    for c_ in copies - {written}:   # the mask must be taken on an array the loop does not rewrite
        good_sel |= {f"np.where({c_} == {var})", f"{c_} == {var}", f"np.where({var} == {c_})",
                     f"{var} == {c_}", f"np.asarray({c_}) == {var}", f"np.where(np.asarray({c_}) == {var})"}
    if written in copies and any(isinstance(x, ast.Name) and x.id == written for x in ast.walk(tgt.slice)):
        rep.violation("O5.converter-positions", cons, "store",
                      f"`{norm(store)[:120]}`: the positions are selected on `{written}`, the array that the loop itself "
                      f"rewrites: an entry already replaced by its degree d is converted a second time when d is also "
                      f"one of the requested sizes", repo.rel("angular", store))
    elif sel in good_sel and norm(store.value) == norm(call.targets[0]):
        rep.ok("O5.converter-positions", cons, repo.rel("angular", store), norm(store)[:100])
    else:
        rep.violation("O5.converter-positions", cons, "store",
                      f"`{norm(store)[:120]}`: the resolved degree must be written at exactly the positions "
                      f"where {param} == {var}", repo.rel("angular", store))


def _converter_vectorised(rep, repo, m, f, cons):
    """Idiom B: `DEGS[np.searchsorted(SIZES, sizes)]` over the keys/values of the dispatched table."""
    defs = {}
    for s in ast.walk(f.node):
        if isinstance(s, ast.Assign) and len(s.targets) == 1 and isinstance(s.targets[0], ast.Name):
            defs.setdefault(s.targets[0].id, []).append(s.value)

    def resolve(e, depth=0):
        while isinstance(e, ast.Name) and e.id in defs and len(defs[e.id]) == 1 and depth < 6:
            e = defs[e.id][0]
            depth += 1
        return e
    ret = next((s for s in ast.walk(f.node) if isinstance(s, ast.Return) and s.value is not None), None)
    v = resolve(ret.value) if ret is not None else None
    if not (isinstance(v, ast.Subscript)):
        raise AnalysisError(f"unrecognised idiom: {cons} neither loops over the distinct sizes nor returns TABLE[index]")
    idx = resolve(v.slice)
    vals = resolve(v.value)
    clamp = None
    while isinstance(idx, ast.Call) and norm(idx.func) in ("np.minimum", "np.clip", "np.maximum", "min") :
        clamp = idx
        inner = [a for a in idx.args if "searchsorted" in norm(resolve(a))]
        if not inner:
            break
        idx = resolve(inner[0])
    if not (isinstance(idx, ast.Call) and norm(idx.func) in ("np.searchsorted", "numpy.searchsorted") and len(idx.args) >= 2):
        raise AnalysisError(f"unrecognised idiom: {cons} index `{norm(idx)[:80]}` is not np.searchsorted(keys, sizes)")
    keys = resolve(idx.args[0])
    side = next((norm(k.value) for k in idx.keywords if k.arg == "side"), "'left'")
    where = repo.rel("angular", idx)
    ktxt, vtxt = norm(keys), norm(vals)
    same_table = ".keys()" in ktxt and ".values()" in vtxt and ktxt.replace(".keys()", "") == vtxt.replace(".values()", "")
    npoints_table = "NPOINTS" in ktxt or any("NPOINTS" in norm(x) for x in ast.walk(f.node) if isinstance(x, ast.Dict))
    if same_table and npoints_table:
        rep.ok("O5.converter-uses-resolver", cons, where, f"vectorised lower bound over {ktxt[:60]}")
    else:
        rep.violation("O5.converter-uses-resolver", cons, "table",
                      f"sizes are searched in `{ktxt[:70]}` but degrees taken from `{vtxt[:70]}`: not the keys/values of one "
                      f"size->degree table", where)
    if side != "'left'":
        rep.violation("O5.converter-positions", cons, "side",
                      f"np.searchsorted(..., side={side}) maps an exactly supported size to the next larger grid", where)
    elif clamp is not None:
        rep.violation("O5.converter-positions", cons, "clamp",
                      f"`{norm(clamp)[:90]}` clamps the position: sizes above the largest supported one are silently mapped to "
                      f"the largest grid instead of being rejected, so the converter disagrees with the resolver", where)
    else:
        rep.ok("O5.converter-positions", cons, where, "element-wise lower bound; out-of-range positions raise IndexError")


def obligations_constructors(rep, repo, m):
    f = m.f_init
    cons = "angular.AngularGrid.__init__"
    call = None
    for s in f.node.body:
        if isinstance(s, ast.Assign) and isinstance(s.value, ast.Call) and \
                norm(s.value.func).endswith("_get_degree_and_size"):
            call = s
    if call is None:
        raise AnalysisError("unrecognised idiom: AngularGrid.__init__ does not call _get_degree_and_size")
    kw = {k.arg: norm(k.value) for k in call.value.keywords}
    for i, a in enumerate(call.value.args):
        kw[m.f_get.params[i]] = norm(a)
    # the method handed on is the variable the constructor itself dispatches on (the argument or its
    # normalised spelling)
    dv = getattr(m, "dvar", {}).get("__init__", "method")
    if kw.get("degree") == "degree" and kw.get("size") == "size" and kw.get("method") in ("method", dv):
        rep.ok("O6.request-passed-on", cons, repo.rel("angular", call), norm(call)[:90])
    else:
        rep.violation("O6.request-passed-on", cons, "call",
                      f"`{norm(call)[:110]}` does not pass degree, size and method through", repo.rel("angular", call))
    # degree := None when size is given
    size_branch = None
    for s in f.node.body:
        if isinstance(s, ast.If) and norm(s.test) == "size is not None" and s.lineno < call.lineno:
            size_branch = s
    if size_branch is not None and any(isinstance(z, ast.Assign) and norm(z) == "degree = None" for z in size_branch.body):
        rep.ok("O6.size-overrides-degree", cons, repo.rel("angular", size_branch), "degree = None when size is given")
    else:
        rep.violation("O6.size-overrides-degree", cons, "size",
                      "when a size is given the default degree must be dropped (degree = None) before resolving; "
                      "otherwise the size request is ignored", repo.rel("angular", f.node))
    # resolved degree stored
    tnames = [norm(e) for e in call.targets[0].elts] if isinstance(call.targets[0], ast.Tuple) else []
    stored = [s for s in ast.walk(f.node) if isinstance(s, ast.Assign) and norm(s.targets[0]) == "self._degree"]
    if stored and all(norm(s.value) == tnames[0] and s.lineno > call.lineno for s in stored):
        rep.ok("O6.resolved-degree-stored", cons, repo.rel("angular", stored[0]), norm(stored[0]))
    else:
        rep.violation("O6.resolved-degree-stored", cons, "_degree",
                      "self._degree is not the degree returned by _get_degree_and_size", repo.rel("angular", f.node))
    # AtomGrid stores the resolved degrees
    g = repo.method("AtomGrid", "_generate_atomic_grid")
    appends = [n for n in ast.walk(g.node) if isinstance(n, ast.Call) and isinstance(n.func, ast.Attribute)
               and n.func.attr == "append" and n.args and norm(n.args[0]).endswith(".degree")]
    rets = [n for n in ast.walk(g.node) if isinstance(n, ast.Return)]
    ok = False
    if appends:
        lst = norm(appends[0].func.value)
        recv = norm(appends[0].args[0])[:-len(".degree")]
        # recv must be the AngularGrid built in the loop
        built = any(isinstance(s, ast.Assign) and norm(s.targets[0]) == recv and isinstance(s.value, ast.Call)
                    and norm(s.value.func) == "AngularGrid" for s in ast.walk(g.node))
        ok = built and any(isinstance(r.value, ast.Tuple) and lst in [norm(e) for e in r.value.elts] for r in rets)
    if ok:
        rep.ok("O6.atomgrid-resolved-degrees", "atomgrid.AtomGrid._generate_atomic_grid",
               repo.rel("atomgrid", appends[0]), "returns the degrees reported by the constructed angular grids")
    else:
        rep.violation("O6.atomgrid-resolved-degrees", "atomgrid.AtomGrid._generate_atomic_grid", "degrees",
                      "the degree list returned is not the list of resolved `sphere_grid.degree` values",
                      repo.rel("atomgrid", g.node))


def run(tier="quick", root="/repo", evidence_dir=None, quiet=False):
    rep = Report(PROP, tier, root, EXPLANATION, RULE, assumptions=[
        "bisect.bisect_left(a, x) on a strictly ascending list returns the index of the smallest element >= x "
        "(documented contract of the standard library)",
        "dict preserves insertion order (language guarantee since 3.7)",
    ])
    repo = get_repo(root)
    m = AngularModel(repo)
    # the resolver must dispatch on the same keys as the loader
    if set(m.chains["_get_degree_and_size"][0]) != set(m.methods()):
        rep.violation("O3.dispatch", "angular.AngularGrid._get_degree_and_size", "keys",
                      "resolver and loader accept different method keys", repo.rel("angular", m.f_get.node))
    obligations_tables(rep, repo, m)
    nb = obligations_lookup(rep, repo, m)
    obligations_zero(rep, repo, m)
    nf = obligations_files(rep, repo, m)
    obligations_converter(rep, repo, m)
    obligations_constructors(rep, repo, m)
    rep.floor("tables", len(m.methods()), 4)
    rep.floor("lookup branches", nb, 2)
    rep.floor("table entries", nf, 440)
    total_lookups = sum(max(m.tables[m.tables_for(k)[1]].keys()) + max(m.tables[m.tables_for(k)[1]].values()) + 2
                        for k in m.methods())
    rep.extra.update({"integer_requests_covered_by_the_argument": total_lookups,
                      "accepted_lookup_idioms": list(ACCEPTED), "source_digest": repo.digest(["angular", "atomgrid"])})
    return rep.finish(evidence_dir=evidence_dir, quiet=quiet)
