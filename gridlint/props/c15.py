"""C15 -- ODE solvers: the algebra of the change of variable only.

The statement's second sentence ("solving the same problem through any admissible coordinate
transformation gives the same function of the original variable") rests on a handful of array
formulas in ode.py that are polynomial in the coefficients a_k, the derivatives g', g'', g''' of the
transformation and the state components.  Those are decided here, for every coefficient function,
right-hand side, transformation and initial / boundary data at once, by evaluating the functions
over symbolic entries (E10) and comparing with the chain rule derived independently:

T1 _transform_ode_from_derivs: b_j = sum_k a_k [y_j] d^k/dx^k y(g(x))      (orders 1..3)
T2 _derivative_transformation_matrix: entry (i, j) = [y_(j+1)] d^(i+1)/dx^(i+1) y(g(x))
T3 _rearrange_to_explicit_ode: the returned value solves the ODE for the highest derivative
T4 the first-order system handed to SciPy (both solvers, with and without a transformation): row i
   is y_(i+1), the last row solves the ODE *in the variable the solver integrates over*, with the
   coefficients evaluated at the original point inverse(r)
T5 solve_ode_ivp + transformation: the span handed on is the image of the span, and the initial
   derivatives handed on reproduce the caller's derivatives under the chain rule at the *original*
   initial point
T6 the callable returned with a transformation evaluates the dense output at transform(x) and
   converts derivatives with the chain rule at x; with no_derivatives it returns y only
T7 solve_ode_bvp: the residual of condition (i, j, C) is y_side(i)[j] - C; the mesh is the image of x

NOT decided: convergence and accuracy of SciPy's integrators, tolerances, the order > 3 branch of T1
(unreachable from the solvers with a transformation), error messages.
"""
from __future__ import annotations

import ast

from gridlint.core import AnalysisError, Report, norm
from gridlint.props.common import get_repo

PROP = "C15"
EXPLANATION = (
    "Formula analysis of ode.py, nothing executed.  The functions that rewrite a linear ODE in a new "
    "variable are evaluated from their syntax trees over arrays whose entries are polynomials in named "
    "indeterminates (user callables are uninterpreted function symbols; the configurations order 1..3, "
    "with/without transformation, with/without derivatives, callable/constant coefficients are "
    "enumerated).  The resulting entries are compared, as polynomial identities, with the chain rule "
    "d^k/dx^k y(g(x)) derived independently from D y_j = y_(j+1) g' and D g_i = g_(i+1).  Decided: the "
    "transformed coefficients, the derivative-conversion matrix, the explicit form, the first-order "
    "system handed to SciPy, the mapping of span / initial data / mesh, the boundary residuals and the "
    "conversion of the returned derivatives.  NOT decided: convergence and accuracy of the numerical "
    "integration (the first sentence of the statement).")
RULE = "one instance per (function, order 1..3, configuration); every entry of the result is compared"
ORDERS = (1, 2, 3)


def _sp():
    import sympy as sp
    return sp


class Ctx:
    def __init__(self, repo):
        from gridlint import e10
        self.repo = repo
        self.e10 = e10
        self.funcs = {}
        for f in repo.funcs.values():
            if f.module == "ode" and f.cls is None and f.parent is None and isinstance(f.node, ast.FunctionDef):
                self.funcs[f.name] = f
        for need in ("solve_ode_ivp", "solve_ode_bvp", "_transform_ode_from_derivs", "_derivative_transformation_matrix",
                     "_rearrange_to_explicit_ode"):
            if need not in self.funcs:
                raise AnalysisError(f"anchor vanished: ode.{need}")
        self.nodes = {k: v.node for k, v in self.funcs.items()}

    def loc(self, name):
        return self.funcs[name].loc()

    def interp(self, externals=None, chain=()):
        e10 = self.e10
        ext = {"bell": lambda n, k, seq: e10.bell_incomplete(n, k, list(seq))}
        ext.update(externals or {})
        it = e10.Interp(self.nodes, ext)
        it.chain = list(chain)
        it.generic_functions = True     # a_k(x) is generically non-zero; exactly-zero coefficients are explored as literals
        return it

    def run(self, name, kw, externals=None, chain=()):
        it = self.interp(externals, chain)
        try:
            return it.call_def(self.nodes[name], [], kw, {})
        except self.e10.Undecided as e:
            raise AnalysisError(f"ode.{name} is outside the fragment the symbolic array evaluator knows: {e}") from e
        except (IndexError, ValueError, TypeError, KeyError) as e:
            raise AnalysisError(f"ode.{name}: the evaluation over symbolic arrays failed ({type(e).__name__}: {e})") from e


def _reference(K, avals, gvals):
    """b_0..b_K of the ODE in the new variable: coefficients of y_j in sum_k a_k d^k/dx^k y(g(x))."""
    sp = _sp()
    from gridlint import e10
    y = sp.symbols(f"y0:{K + 1}")
    g = [None] + list(sp.symbols(f"g1:{K + 2}"))
    T = e10.chain_rule(K, list(y), g)
    tot = sum(avals[k] * T[k] for k in range(K + 1))
    tot = sp.expand(tot.subs({g[i]: gvals[i - 1] for i in range(1, min(len(g), len(gvals) + 1))}))
    return [tot.coeff(y[j]) if j else tot.subs({y_: 0 for y_ in y[1:]}).coeff(y[0]) for j in range(K + 1)], T, y, g


def _zero(e):
    sp = _sp()
    e = sp.together(sp.expand(e))
    num = sp.numer(e)
    return sp.expand(num) == 0


def _param_names(node):
    return [a.arg for a in node.args.args]


# ------------------------------------------------------------------------------------------ T1
def rule_t1(rep, cx):
    sp = _sp()
    e10 = cx.e10
    node = cx.nodes["_transform_ode_from_derivs"]
    ps = _param_names(node)
    if len(ps) != 3:
        raise AnalysisError("unrecognised signature of _transform_ode_from_derivs")
    n = 0
    undecided = []
    # coefficient configurations: callables, non-zero constants, and constants some of which are exactly zero
    # (the radial Poisson equation has no first-derivative term)
    for K in ORDERS:
        patterns = [("callable", None), ("constant", None)]
        for mask in range(1, 2 ** max(K - 1, 0)):
            zeros = [k for k in range(1, K) if mask >> (k - 1) & 1]
            patterns.append(("constant", zeros))
        for kind, zeros in patterns:
            const = kind == "constant"
            X = e10.arr([sp.Symbol("X0"), sp.Symbol("X1")])
            coeffs = [(0 if (zeros and k in zeros) else sp.Symbol(f"c{k}", positive=True)) if const else e10.Fn(f"A{k}")
                      for k in range(K + 1)]
            derivs = [e10.Fn("G1"), e10.Fn("G2"), e10.Fn("G3")]
            label = f"order {K}, {kind} coefficients" + (f", a_{zeros} exactly zero" if zeros else "")
            try:
                out = cx.run("_transform_ode_from_derivs", {ps[0]: coeffs, ps[1]: derivs, ps[2]: X})
            except AnalysisError as e:
                undecided.append(f"{label}: {e}")
                continue
            if not hasattr(out, "shape") or out.shape != (K + 1, 2):
                rep.violation("T1.faa-di-bruno-coefficients", "ode._transform_ode_from_derivs", f"order {K}",
                              f"for an ODE of order {K} on two points the result has shape "
                              f"{getattr(out, 'shape', type(out).__name__)}, not ({K + 1}, 2)", cx.loc("_transform_ode_from_derivs"))
                continue
            for p_ in range(2):
                x = X[p_]
                av = [sp.sympify(coeffs[k]) if const else sp.Function(f"A{k}")(x) for k in range(K + 1)]
                gv = [sp.Function(f"G{i}")(x) for i in (1, 2, 3)]
                ref, _, _, _ = _reference(K, av, gv)
                for j in range(K + 1):
                    n += 1
                    if _zero(out[j, p_] - ref[j]):
                        continue
                    rep.violation("T1.faa-di-bruno-coefficients", "ode._transform_ode_from_derivs", f"b[{j}]",
                                  f"{label}: the coefficient of d^{j}y/dr^{j} in the transformed ODE is "
                                  f"`{_show(out[j, p_])}` but the chain rule gives `{_show(ref[j])}` "
                                  f"(a_k / c_k: coefficients, G_i: i-th derivative of the transformation)",
                                  cx.loc("_transform_ode_from_derivs"))
            rep.ok("T1.faa-di-bruno-coefficients", f"_transform_ode_from_derivs[{label}]",
                   cx.loc("_transform_ode_from_derivs"), "b_j = sum_k a_k B_(k,j)(g1, g2, g3) for j = 0.." + str(K))
    if undecided and not rep.violations:
        raise AnalysisError("; ".join(undecided[:2]))
    rep.floor("T1 entries compared", n, 2 * 2 * (2 + 3 + 4))
    # the wrapper feeds the three derivative methods of the transformation, in order
    w = cx.nodes.get("_transform_ode_from_rtransform")
    if w is not None:
        ps = _param_names(w)
        X = e10.arr([sp.Symbol("X0")])
        tf = _transform_obj(e10)
        out = cx.run("_transform_ode_from_rtransform", {ps[0]: [e10.Fn(f"A{k}") for k in range(4)], ps[1]: tf, ps[2]: X})
        av = [sp.Function(f"A{k}")(X[0]) for k in range(4)]
        gv = [sp.Function(f"G{i}")(X[0]) for i in (1, 2, 3)]
        ref, _, _, _ = _reference(3, av, gv)
        bad = [j for j in range(4) if not _zero(out[j, 0] - ref[j])]
        if bad:
            rep.violation("T1.faa-di-bruno-coefficients", "ode._transform_ode_from_rtransform", "derivative-methods",
                          f"the coefficients b[{bad}] differ from the chain rule: the derivative methods of the "
                          f"transformation must be passed as [deriv, deriv2, deriv3]", cx.loc("_transform_ode_from_rtransform"))
        else:
            rep.ok("T1.faa-di-bruno-coefficients", "_transform_ode_from_rtransform", cx.loc("_transform_ode_from_rtransform"),
                   "passes [deriv, deriv2, deriv3]")


def _show(e, n=160):
    s = str(_sp().expand(e))
    return s if len(s) <= n else s[:n] + "..."


def _transform_obj(e10):
    sp = _sp()
    return e10.Obj("transform", deriv=e10.Fn("G1"), deriv2=e10.Fn("G2"), deriv3=e10.Fn("G3"),
                   transform=e10.Fn("R"), inverse=e10.Fn("INV"),
                   domain=(sp.Symbol("DOM0"), sp.Symbol("DOM1")), codomain=(sp.Symbol("COD0"), sp.Symbol("COD1")))


# ------------------------------------------------------------------------------------------ T2
def rule_t2(rep, cx):
    sp = _sp()
    e10 = cx.e10
    node = cx.nodes["_derivative_transformation_matrix"]
    ps = _param_names(node)
    n = 0
    P = sp.Symbol("P")
    for order in (0, 1, 2, 3):
        M = cx.run("_derivative_transformation_matrix", {ps[0]: [e10.Fn("G1"), e10.Fn("G2"), e10.Fn("G3")], ps[1]: P, ps[2]: order})
        if not hasattr(M, "shape") or M.shape != (order, order):
            rep.violation("T2.derivative-matrix", "ode._derivative_transformation_matrix", f"order {order}",
                          f"the matrix for {order} derivatives has shape {getattr(M, 'shape', None)}", cx.loc("_derivative_transformation_matrix"))
            continue
        gv = [sp.Function(f"G{i}")(P) for i in (1, 2, 3)]
        _, T, y, g = _reference(max(order, 1), [sp.Integer(0)] * (max(order, 1) + 1), gv)
        for i in range(order):
            Ti = sp.expand(T[i + 1].subs({g[m]: gv[m - 1] for m in range(1, min(len(g), 4))}))
            for j in range(order):
                n += 1
                want = Ti.coeff(y[j + 1])
                if not _zero(M[i, j] - want):
                    rep.violation("T2.derivative-matrix", "ode._derivative_transformation_matrix", f"entry[{i},{j}]",
                                  f"order {order}: entry ({i}, {j}) is `{_show(M[i, j])}`; d^{i + 1}/dx^{i + 1} of y(g(x)) "
                                  f"contains d^{j + 1}y/dr^{j + 1} with the factor `{_show(want)}`", cx.loc("_derivative_transformation_matrix"))
        rep.ok("T2.derivative-matrix", f"_derivative_transformation_matrix[order {order}]", cx.loc("_derivative_transformation_matrix"),
               "lower triangular, entry (i, j) = B_(i+1, j+1)(g', g'', g''')")
    rep.floor("T2 entries compared", n, 1 + 4 + 9)


# ------------------------------------------------------------------------------------------ T3
def rule_t3(rep, cx):
    sp = _sp()
    e10 = cx.e10
    node = cx.nodes["_rearrange_to_explicit_ode"]
    ps = _param_names(node)
    n = 0
    for K in ORDERS:
        y = e10._obj_array([[sp.Symbol(f"y{j}_{p_}") for p_ in range(2)] for j in range(K)])
        b = e10._obj_array([[sp.Symbol(f"b{j}_{p_}") for p_ in range(2)] for j in range(K + 1)])
        f = e10.arr([sp.Symbol("f_0"), sp.Symbol("f_1")])
        out = cx.run("_rearrange_to_explicit_ode", {ps[0]: y, ps[1]: b, ps[2]: f})
        if not hasattr(out, "shape") or out.shape != (2,):
            rep.violation("T3.explicit-form", "ode._rearrange_to_explicit_ode", f"order {K}",
                          f"the result for two points has shape {getattr(out, 'shape', None)}", cx.loc("_rearrange_to_explicit_ode"))
            continue
        for p_ in range(2):
            n += 1
            res = sum(b[j, p_] * y[j, p_] for j in range(K)) + b[K, p_] * out[p_] - f[p_]
            if not _zero(res):
                rep.violation("T3.explicit-form", "ode._rearrange_to_explicit_ode", "highest-derivative",
                              f"order {K}: the returned value `{_show(out[p_])}` does not solve "
                              f"sum_(j<K) b_j y_j + b_K y_K = f for y_K", cx.loc("_rearrange_to_explicit_ode"))
        rep.ok("T3.explicit-form", f"_rearrange_to_explicit_ode[order {K}]", cx.loc("_rearrange_to_explicit_ode"),
               "(f - sum_(j<K) b_j y_j) / b_K")
    rep.floor("T3 instances", n, 6)


# ------------------------------------------------------------------------------ solvers (T4..T7)
class Captured(Exception):
    pass


def _solver_run(cx, which, K, with_tf, no_derivs, const=False, descending=False):
    """Evaluate a solver up to and beyond the SciPy call; returns (captured call, returned value)."""
    sp = _sp()
    e10 = cx.e10
    node = cx.nodes[which]
    ps = _param_names(node)
    cap = {}

    def scipy_solver(*args, **kw):
        cap["args"], cap["kw"] = args, kw
        return e10.Obj("result", status=0, sol=e10.Fn("Y", nout=K), success=True, message="<str>")

    def lin_solve(A, b):
        A = A if hasattr(A, "shape") else e10._obj_array(A)
        b = b if hasattr(b, "shape") else e10._obj_array(b)
        if A.size == 0:
            return e10.arr([])
        z = sp.Matrix(A.tolist()).LUsolve(sp.Matrix(b.tolist()))
        return e10.arr([sp.simplify(v) for v in z])

    ext = {"solve_ivp": scipy_solver, "solve_bvp": scipy_solver, "solve": lin_solve}
    coeffs = [sp.Symbol(f"c{k}") if const else e10.Fn(f"A{k}") for k in range(K + 1)]
    kw = {"fx": e10.Fn("F"), "coeffs": coeffs, "transform": _transform_obj(e10) if with_tf else None,
          "no_derivatives": no_derivs}
    if which == "solve_ode_ivp":
        kw["x_span"] = (sp.Symbol("X0"), sp.Symbol("X1"))
        kw["y0"] = [sp.Symbol(f"C{k}") for k in range(K)]
    else:
        kw["x"] = e10.arr([sp.Symbol("X0"), sp.Symbol("X1"), sp.Symbol("X2")])
        kw["bd_cond"] = [(k % 2, k, sp.Symbol(f"BC{k}")) for k in range(K)]
        kw["initial_guess_y"] = e10.Unknown("the initial guess")
    missing = [k for k in kw if k not in ps]
    if missing:
        raise AnalysisError(f"unrecognised signature of ode.{which}: no parameter(s) {missing}")
    chain = ()
    if which == "solve_ode_ivp":
        # the two orderings of the integration span (integrating upwards / downwards)
        chain = [sp.Symbol("X1"), sp.Symbol("X0")] if descending else [sp.Symbol("X0"), sp.Symbol("X1")]
    ret = cx.run(which, kw, ext, chain)
    if "args" not in cap:
        raise AnalysisError(f"ode.{which} does not reach a call of SciPy's solver")
    return cap, ret, kw


def _apply(cx, closure, *args):
    try:
        return closure(*args)
    except cx.e10.Undecided as e:
        raise AnalysisError(f"a nested function of ode.py is outside the fragment the symbolic array evaluator knows: {e}") from e
    except (IndexError, ValueError, TypeError, KeyError) as e:
        raise AnalysisError(f"the evaluation of a nested function over symbolic arrays failed ({type(e).__name__}: {e})") from e


def _check_t5(rep, cx, cap, K, with_tf, cfg, here):
    sp = _sp()
    span = cap["args"][1] if len(cap["args"]) > 1 else cap["kw"].get("t_span")
    y0 = cap["kw"].get("y0", cap["args"][2] if len(cap["args"]) > 2 else None)
    if span is None or y0 is None:
        raise AnalysisError("solve_ode_ivp: cannot identify t_span / y0 of the SciPy call")
    span, y0 = list(span), list(y0)
    X = [sp.Symbol("X0"), sp.Symbol("X1")]
    want_span = [sp.Function("R")(x) for x in X] if with_tf else X
    if len(span) != 2 or any(not _zero(a - b) for a, b in zip(span, want_span)):
        rep.violation("T5.initial-data-mapping", "ode.solve_ode_ivp", "span",
                      f"{cfg}: the integration span handed to SciPy is {[str(s) for s in span]}, expected "
                      f"{[str(s) for s in want_span]}", here)
    C = [sp.Symbol(f"C{k}") for k in range(K)]
    if len(y0) != K:
        rep.violation("T5.initial-data-mapping", "ode.solve_ode_ivp", "y0",
                      f"{cfg}: {len(y0)} initial values are handed to SciPy for a system of {K}", here)
    elif with_tf:
        gv = [sp.Function(f"G{i}")(X[0]) for i in (1, 2, 3)]
        _, T, y, g = _reference(max(K - 1, 1), [sp.Integer(0)] * (max(K - 1, 1) + 1), gv)
        sub = {y[j]: y0[j] for j in range(min(K, len(y)))}
        sub.update({g[m]: gv[m - 1] for m in range(1, min(len(g), 4))})
        for k in range(K):
            back = sp.simplify(T[k].subs(sub) - C[k]) if k else sp.simplify(y0[0] - C[0])
            if back != 0:
                rep.violation("T5.initial-data-mapping", "ode.solve_ode_ivp", f"y0[{k}]",
                              f"{cfg}: with the initial state handed to SciPy the derivative d^{k}y/dx^{k} at "
                              f"the initial point is `{_show(sp.simplify(T[k].subs(sub)))}`, not the caller's value C{k} "
                              f"(the chain rule must be applied at the original initial point x_span[0])", here)
    else:
        for k in range(K):
            if not _zero(y0[k] - C[k]):
                rep.violation("T5.initial-data-mapping", "ode.solve_ode_ivp", f"y0[{k}]",
                              f"{cfg}: initial value {k} handed to SciPy is `{_show(y0[k])}`", here)


def rule_solvers(rep, cx):
    sp = _sp()
    e10 = cx.e10
    n4 = n5 = n6 = n7 = 0
    for which in ("solve_ode_ivp", "solve_ode_bvp"):
        here = cx.loc(which)
        for K in ORDERS:
            for with_tf in (False, True):
                cap, ret, kw = _solver_run(cx, which, K, with_tf, no_derivs=False)
                func = cap["args"][0] if cap["args"] else cap["kw"].get("fun")
                if not callable(func):
                    raise AnalysisError(f"ode.{which}: the first argument of the SciPy call is not a function of the module")
                # ---- T4: the first-order system
                npts = 1 if which == "solve_ode_ivp" else 2
                yv = e10._obj_array([[sp.Symbol(f"y{j}_{p_}") for p_ in range(npts)] for j in range(K)])
                if which == "solve_ode_ivp":
                    rv = [sp.Symbol("r0")]
                    out = _apply(cx, func, rv[0], yv)
                else:
                    rv = [sp.Symbol("r0"), sp.Symbol("r1")]
                    out = _apply(cx, func, e10.arr(rv), yv)
                cons = f"ode.{which}.func"
                cfg = f"order {K}, {'with' if with_tf else 'without'} a transformation"
                if not hasattr(out, "shape") or out.shape != (K, npts):
                    rep.violation("T4.first-order-system", cons, "shape",
                                  f"{cfg}: the system function returns shape {getattr(out, 'shape', None)} for a state "
                                  f"of shape ({K}, {npts})", here)
                    continue
                for p_ in range(npts):
                    n4 += 1
                    for i in range(K - 1):
                        if not _zero(out[i, p_] - yv[i + 1, p_]):
                            rep.violation("T4.first-order-system", cons, f"row[{i}]",
                                          f"{cfg}: row {i} of the system must be the next state component y[{i + 1}], "
                                          f"found `{_show(out[i, p_])}`", here)
                    x0 = sp.Function("INV")(rv[p_]) if with_tf else rv[p_]
                    av = [sp.Function(f"A{k}")(x0) for k in range(K + 1)]
                    if with_tf:
                        gv = [sp.Function(f"G{i}")(x0) for i in (1, 2, 3)]
                        ref, _, _, _ = _reference(K, av, gv)
                    else:
                        ref = av
                    res = sum(ref[j] * yv[j, p_] for j in range(K)) + ref[K] * out[K - 1, p_] - sp.Function("F")(x0)
                    if not _zero(res):
                        rep.violation("T4.first-order-system", cons, "last-row",
                                      f"{cfg}: the last row `{_show(out[K - 1, p_])}` does not solve the ODE "
                                      f"{'rewritten in the new variable (coefficients and right-hand side at inverse(r))' if with_tf else 'sum_k a_k(x) y_k = f(x)'} "
                                      f"for the highest derivative", here)
                rep.ok("T4.first-order-system", f"{which}.func[{cfg}]", here, "rows y[1:], last row explicit form")
                # ---- T5 / T7: what is handed to SciPy
                if which == "solve_ode_ivp":
                    n5 += 1
                    _check_t5(rep, cx, cap, K, with_tf, cfg, here)
                    if with_tf:
                        cap_d, _, _ = _solver_run(cx, which, K, with_tf, no_derivs=False, descending=True)
                        _check_t5(rep, cx, cap_d, K, with_tf, cfg + ", span integrated downwards", here)
                    rep.ok("T5.initial-data-mapping", f"solve_ode_ivp[{cfg}]", here, "span and initial state, both directions")
                else:
                    bc = cap["args"][1] if len(cap["args"]) > 1 else cap["kw"].get("bc")
                    mesh = cap["args"][2] if len(cap["args"]) > 2 else cap["kw"].get("x")
                    n7 += 1
                    X = [sp.Symbol("X0"), sp.Symbol("X1"), sp.Symbol("X2")]
                    want = [sp.Function("R")(x) for x in X] if with_tf else X
                    if mesh is None or len(list(mesh)) != 3 or any(not _zero(a - b) for a, b in zip(list(mesh), want)):
                        rep.violation("T7.boundary-data", "ode.solve_ode_bvp", "mesh",
                                      f"{cfg}: the mesh handed to SciPy is {[str(s) for s in (list(mesh) if mesh is not None else [])]}, "
                                      f"expected {[str(s) for s in want]}", here)
                    ya = e10.arr([sp.Symbol(f"ya{j}") for j in range(K)])
                    yb = e10.arr([sp.Symbol(f"yb{j}") for j in range(K)])
                    r = _apply(cx, bc, ya, yb)
                    r = list(r) if r is not None else []
                    want_r = [(ya, yb)[k % 2][k] - sp.Symbol(f"BC{k}") for k in range(K)]
                    if len(r) != K or any(not _zero(a - b) for a, b in zip(r, want_r)):
                        rep.violation("T7.boundary-data", "ode.solve_ode_bvp.bc", "residual",
                                      f"{cfg}: for the conditions {[(k % 2, k, 'BC%d' % k) for k in range(K)]} the residuals are "
                                      f"{[str(x) for x in r]}, expected {[str(x) for x in want_r]}", here)
                    else:
                        rep.ok("T7.boundary-data", f"solve_ode_bvp[{cfg}]", here, "mesh and residuals")
                # ---- T6: the returned callable
                for nod in (False, True):
                    if nod:
                        cap2, ret2, _ = _solver_run(cx, which, K, with_tf, no_derivs=True)
                    else:
                        ret2 = ret
                    n6 += 1
                    cons6 = f"ode.{which}" + (" -> _transform_solution_to_original_domain" if with_tf else "")
                    if not with_tf:
                        if not (isinstance(ret2, e10.Fn) and ret2.name == "Y"):
                            rep.violation("T6.returned-derivatives", cons6, "direct",
                                          f"{cfg}: without a transformation the solver must return SciPy's dense output", here)
                        continue
                    if not callable(ret2):
                        raise AnalysisError(f"ode.{which}: the value returned with a transformation is not a function of the module")
                    Pp = [sp.Symbol("P0"), sp.Symbol("P1")]
                    out = _apply(cx, ret2, e10.arr(Pp))
                    if nod:
                        good = hasattr(out, "shape") and out.shape == (2,) and all(
                            _zero(out[p_] - sp.Function("Y0")(sp.Function("R")(Pp[p_]))) for p_ in range(2))
                        if not good:
                            rep.violation("T6.returned-derivatives", cons6, "values-only",
                                          f"{cfg}, no_derivatives: the callable must return y at transform(x); found "
                                          f"{[_show(v, 60) for v in (list(out.flatten()) if hasattr(out, 'flatten') else [out])][:4]}", here)
                        continue
                    if not hasattr(out, "shape") or out.shape != (K, 2):
                        rep.violation("T6.returned-derivatives", cons6, "shape",
                                      f"{cfg}: the returned callable gives shape {getattr(out, 'shape', None)} for two points", here)
                        continue
                    for p_ in range(2):
                        gv = [sp.Function(f"G{i}")(Pp[p_]) for i in (1, 2, 3)]
                        _, T, y, g = _reference(max(K - 1, 1), [sp.Integer(0)] * (max(K - 1, 1) + 1), gv)
                        sub = {y[j]: sp.Function(f"Y{j}")(sp.Function("R")(Pp[p_])) for j in range(min(K, len(y)))}
                        sub.update({g[m]: gv[m - 1] for m in range(1, min(len(g), 4))})
                        for k in range(K):
                            want = T[k].subs(sub)
                            if not _zero(out[k, p_] - want):
                                rep.violation("T6.returned-derivatives", cons6, f"derivative[{k}]",
                                              f"{cfg}: row {k} of the returned array is `{_show(out[k, p_])}`; d^{k}y/dx^{k} at x is "
                                              f"`{_show(want)}` (Y_j: j-th r-derivative of the dense output at transform(x), "
                                              f"G_i: derivatives of the transformation at x)", here)
                if with_tf:
                    rep.ok("T6.returned-derivatives", f"{which}[{cfg}]", here, "values at transform(x), derivatives by the chain rule at x")
    rep.floor("T4 system points", n4, 2 * 3 + 2 * 3 * 2)
    rep.floor("T5 initial-data configurations", n5, 6)
    rep.floor("T6 returned callables", n6, 24)
    rep.floor("T7 boundary configurations", n7, 6)


def run(tier="quick", root="/repo", evidence_dir=None, quiet=False):
    rep = Report(PROP, tier, root, EXPLANATION, RULE, assumptions=[
        "user callables (coefficients, right-hand side, methods of the transformation, SciPy's dense output) are "
        "uninterpreted function symbols; deriv/deriv2/deriv3 are the derivatives of transform (that is C03)",
        "sympy.bell(n, k, seq) is the partial Bell polynomial B_(n,k)(seq[0], ...) (contract of the library)",
        "scipy.linalg.solve(A, b) returns the solution of A z = b; SciPy's solvers integrate the system they are given",
        "validation guards (an `if` that only raises or warns) are passed by accepted inputs",
    ])
    repo = get_repo(root)
    cx = Ctx(repo)
    rep.attempt(rule_t1, rep, cx)
    rep.attempt(rule_t2, rep, cx)
    rep.attempt(rule_t3, rep, cx)
    rep.attempt(rule_solvers, rep, cx)
    rep.extra["source_digest"] = repo.digest(["ode"])
    return rep.finish(evidence_dir=evidence_dir, quiet=quiet)
