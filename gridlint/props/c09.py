"""C09 -- harmonic decomposition / interpolation on atomic grids: the assembly clauses only.

The statement's first half (exact recovery of band-limited functions) is numerical.  Its second half
is literally a list of assembly identities, and those are visible in the code for every grid, every
function and every evaluation point:

  "the interpolant equals the sum of spline values times harmonics, its reported derivatives
   (Cartesian, spherical or radial-only) are the derivatives of that same interpolant, the spherical
   average integrates back to the total, and molecular interpolation is the sum of the atomic
   interpolants of w_A f"

They are decided by evaluating the methods over symbolic arrays (E10; splines, harmonics and their
angular derivatives are uninterpreted stubs):

D1 interpolant-is-sum: value = sum_i S_i(r) Y_i; radial-only derivative of order k = sum_i S_i^(k)(r) Y_i
D2 spherical-derivatives: (sum S_i' Y_i, sum S_i dY_i/dtheta, sum S_i dY_i/dphi), in this order
D3 cartesian-chain-rule: the Cartesian gradient is the chain rule applied to those three with the
   Jacobian of (r, theta, phi) with respect to (x, y, z) -- derived here by inverting the Jacobian of
   the parametrisation x = r sin(phi) cos(theta), y = r sin(phi) sin(theta), z = r cos(phi)
D4 radial-components: the i-th spline interpolates, over the radial points, the shell sums
   sum_(n in shell k) Y_i(n) f_n W_n / (r_k^2 w_k), and 0 for rows beyond (d_k // 2 + 1)^2 on a shell
   of lower degree d_k
D5 angular-integration: integrate_angular_coordinates(f)[.., k] = sum_(n in shell k) f_n W_n / (r_k^2 w_k)
D6 spherical-average: the spline through D5 / (4 pi) over the radial points
D7 molecular-assembly: MolGrid.interpolate = sum over all atoms of the atomic interpolant of the
   atom's own segment of w_A f on the atom's own grid, every option forwarded

NOT decided: exactness for band-limited functions, accuracy of the splines, the special cases at
r = 0 and on the z-axis (radii and polar angles are generic).
"""
from __future__ import annotations

import ast

from gridlint.core import AnalysisError, Report
from gridlint.props.common import get_repo

PROP = "C09"
EXPLANATION = (
    "Formula analysis of atomgrid.py / molgrid.py / utils.py, nothing executed.  The decomposition and "
    "interpolation methods are evaluated from their syntax trees over symbolic arrays (E10: cubic "
    "splines, harmonics and their angular derivatives are uninterpreted stubs that record what they are "
    "handed).  Decided for every grid, function and evaluation point (generic radii and angles): the "
    "interpolant is the sum of spline values times harmonics; the radial-only, spherical and Cartesian "
    "derivatives are the derivatives of that same sum (Cartesian by the chain rule with the Jacobian "
    "derived independently from the parametrisation); the radial components are the shell-wise "
    "projections with the radial weight removed and truncated on shells of lower degree; the spherical "
    "average is that integral / 4 pi; the molecular interpolant is the sum of the atomic interpolants of "
    "w_A f with every option forwarded.  NOT decided: exactness for band-limited functions, spline "
    "accuracy, the special cases at r = 0 and on the z-axis.")
RULE = "one instance per (method, configuration, output entry); a 2-shell atom (degrees 3 and 5), a 2-atom molecule"


def _sp():
    import sympy as sp
    return sp


class Cx:
    def __init__(self, repo):
        from gridlint import e10
        self.e10 = e10
        self.repo = repo
        self.m = {}
        for name in ("integrate_angular_coordinates", "spherical_average", "radial_component_splines", "interpolate"):
            f = repo.resolve_method("AtomGrid", name)
            if f is None:
                raise AnalysisError(f"anchor vanished: AtomGrid.{name}")
            self.m[name] = f
        f = repo.resolve_method("MolGrid", "interpolate")
        if f is None:
            raise AnalysisError("anchor vanished: MolGrid.interpolate")
        self.m["mol_interpolate"] = f
        self.atom_globals = {k: v for k, v in e10.module_globals_of(repo.modules["atomgrid"].tree).items()
                             if not isinstance(v, ast.ClassDef)}
        self.utils = {g.name: g.node for g in repo.funcs.values()
                      if g.module == "utils" and g.cls is None and g.parent is None and isinstance(g.node, ast.FunctionDef)}
        if "convert_derivative_from_spherical_to_cartesian" not in self.utils:
            raise AnalysisError("anchor vanished: utils.convert_derivative_from_spherical_to_cartesian")

    def loc(self, name):
        return self.m[name].loc()

    def guard(self, what, fn, *a, **kw):
        try:
            return fn(*a, **kw)
        except self.e10.Undecided as e:
            raise AnalysisError(f"{what} is outside the fragment the symbolic array evaluator knows: {e}") from e
        except (IndexError, ValueError, TypeError, KeyError, AttributeError) as e:
            raise AnalysisError(f"{what}: the evaluation over symbolic arrays failed ({type(e).__name__}: {e})") from e


class Atom:
    """A symbolic atomic grid: 2 shells (2 + 3 points, degrees 3 and 5), generic radii."""

    def __init__(self, cx, tag="", degs=(3, 5), npts=2):
        sp = _sp()
        e10 = cx.e10
        self.cx, self.tag = cx, tag
        self.idx = [0, 2, 5]
        self.N = 5
        self.degs = list(degs)
        self.l_max = max(degs)
        self.L = self.l_max // 2
        self.rows = (self.L + 1) ** 2
        self.rk = [sp.Symbol(f"rk{tag}{k}", positive=True) for k in range(2)]
        self.wk = [sp.Symbol(f"wk{tag}{k}", positive=True) for k in range(2)]
        self.W = [sp.Symbol(f"W{tag}{n}") for n in range(self.N)]
        self.f = [sp.Symbol(f"f{tag}{n}") for n in range(self.N)]
        self.r = [sp.Symbol(f"r{tag}{n}", positive=True) for n in range(npts)]
        self.th = [sp.Symbol(f"th{tag}{n}", positive=True) for n in range(npts)]
        self.ph = [sp.Symbol(f"ph{tag}{n}", positive=True) for n in range(npts)]
        self.generic = set(self.rk) | set(self.r) | set(self.ph) | set(self.th)
        self.splines = []      # (x, y) handed to CubicSpline
        self.harm = []
        atom = self

        def to_sph(points=None, center=None):
            if points is None:
                return e10._obj_array([[sp.Symbol(f"gr{tag}{n}"), sp.Symbol(f"gth{tag}{n}"), sp.Symbol(f"gph{tag}{n}")] for n in range(atom.N)])
            return e10._obj_array([[atom.r[n], atom.th[n], atom.ph[n]] for n in range(npts)])

        rot = {"": 0, "a": 0, "b": 11}.get(tag, 0)
        self.obj = e10.Obj(f"atomgrid{tag}", cls="AtomGrid", l_max=self.l_max, size=self.N, n_shells=2, rotate=rot, _rot=rot,
                           indices=e10.arr(self.idx), degrees=list(self.degs), _degs=list(self.degs), method="lebedev",
                           weights=e10.arr(self.W), _basis=None,
                           rgrid=e10.Obj("rgrid", points=e10.arr(self.rk), weights=e10.arr(self.wk)),
                           convert_cartesian_to_spherical=to_sph)

        def harmonics(l, theta, phi):
            l = int(l)
            th = list(theta)
            on_grid = str(th[0]).startswith("gth")
            atom.harm.append((l, "grid" if on_grid else "points"))
            pre = "B" if on_grid else "Y"
            return e10._obj_array([[sp.Symbol(f"{pre}{tag}_{i}_{n}") for n in range(len(th))] for i in range((l + 1) ** 2)])

        def dharmonics(l, theta, phi):
            l = int(l)
            th = list(theta)
            atom.harm.append((l, "dpoints"))
            return e10._obj_array([[[sp.Symbol(f"D{'tp'[t]}{tag}_{i}_{n}") for n in range(len(th))] for i in range((l + 1) ** 2)]
                                   for t in range(2)])

        def cubic(x=None, y=None, **kw):
            k = len(atom.splines)
            atom.splines.append((x, y))

            def spline(r, nu=0):
                return e10.Fn(f"S{tag}_{k}" + (f"_d{int(nu)}" if nu else ""))(r)
            return spline

        self.ext = {"generate_real_spherical_harmonics": harmonics,
                    "generate_derivative_real_spherical_harmonics": dharmonics, "CubicSpline": cubic,
                    "AngularGrid": e10.Cls("AngularGrid")}

    def interp(self, extra_funcs=None, shared=None):
        funcs = dict(self.cx.utils)
        it = shared if shared is not None else self.cx.e10.Interp(funcs, self.ext, generic=self.generic,
                                                                   module_globals=self.cx.atom_globals)
        repo, obj = self.cx.repo, self.obj

        def resolver(name):
            # a method / property of AtomGrid that is not stubbed is interpreted from the source
            f = repo.resolve_method("AtomGrid", name)
            if f is None or not isinstance(f.node, ast.FunctionDef):
                return False, None
            decos = {getattr(d, "id", getattr(d, "attr", None)) for d in f.node.decorator_list}
            if "property" in decos:
                return True, it.call_def(f.node, [obj], {}, {})
            if "staticmethod" in decos:
                return True, (lambda *a, **kw: it.call_def(f.node, list(a), kw, {}))
            return True, (lambda *a, **kw: it.call_def(f.node, [obj] + list(a), kw, {}))
        obj.resolver = resolver
        return it

    def bind(self, it, name, real=True):
        """Make self.<name> call the real method (interpreted)."""
        node = self.cx.m[name].node
        self.obj.attrs[name] = lambda *a, **kw: it.call_def(node, [self.obj] + list(a), kw, {})

    def shell_sum(self, vals, k, weights=True):
        return sum(vals[n] * self.W[n] for n in range(self.idx[k], self.idx[k + 1])) / (self.rk[k] ** 2 * self.wk[k])


def _eq(a, b):
    sp = _sp()
    return sp.simplify(sp.expand(a - b)) == 0


def rule_projection(rep, cx):
    """D4, D5, D6."""
    sp = _sp()
    e10 = cx.e10
    # ---- D5 on 1-D and 2-D values
    at = Atom(cx)
    it = at.interp()
    node = cx.m["integrate_angular_coordinates"].node
    here = cx.loc("integrate_angular_coordinates")
    out = cx.guard("AtomGrid.integrate_angular_coordinates", it.call_def, node, [at.obj, e10.arr(at.f)], {}, {})
    n5 = 0
    if not hasattr(out, "shape") or out.shape != (2,):
        rep.violation("D5.angular-integration", "atomgrid.AtomGrid.integrate_angular_coordinates", "shape",
                      f"for values on 5 points in 2 shells the result has shape {getattr(out, 'shape', None)}", here)
    else:
        for k in range(2):
            n5 += 1
            if not _eq(out[k], at.shell_sum(at.f, k)):
                rep.violation("D5.angular-integration", "atomgrid.AtomGrid.integrate_angular_coordinates", f"shell[{k}]",
                              f"shell {k}: the result is `{str(out[k])[:140]}`; the angular integral is the sum over the points "
                              f"of that shell of f w, divided by the radial factor r_k^2 w_k of that shell", here)
    G = e10._obj_array([[sp.Symbol(f"g{j}_{n}") for n in range(5)] for j in range(3)])
    out2 = cx.guard("AtomGrid.integrate_angular_coordinates", it.call_def, node, [at.obj, G], {}, {})
    if not hasattr(out2, "shape") or out2.shape != (3, 2):
        rep.violation("D5.angular-integration", "atomgrid.AtomGrid.integrate_angular_coordinates", "shape-2d",
                      f"for three rows of values the result has shape {getattr(out2, 'shape', None)}, expected (3, 2)", here)
    else:
        for j in range(3):
            for k in range(2):
                n5 += 1
                if not _eq(out2[j, k], at.shell_sum(list(G[j]), k)):
                    rep.violation("D5.angular-integration", "atomgrid.AtomGrid.integrate_angular_coordinates", f"row-shell[{k}]",
                                  f"row {j}, shell {k}: `{str(out2[j, k])[:140]}` is not the shell sum of that row", here)
    if n5:
        rep.ok("D5.angular-integration", "AtomGrid.integrate_angular_coordinates", here, "shell sums with the radial weight removed (1-D and 2-D values)")
    rep.floor("D5 entries", n5, 8)
    # ---- D6
    at = Atom(cx)
    it = at.interp()
    at.bind(it, "integrate_angular_coordinates")
    here = cx.loc("spherical_average")
    cx.guard("AtomGrid.spherical_average", it.call_def, cx.m["spherical_average"].node, [at.obj, e10.arr(at.f)], {}, {})
    if len(at.splines) != 1:
        rep.violation("D6.spherical-average", "atomgrid.AtomGrid.spherical_average", "spline", "no single spline is constructed", here)
    else:
        x, y = at.splines[0]
        good = x is not None and y is not None and list(x) == at.rk and len(list(y)) == 2 and \
            all(_eq(y[k], at.shell_sum(at.f, k) / (4 * sp.pi)) for k in range(2))
        if good:
            rep.ok("D6.spherical-average", "AtomGrid.spherical_average", here, "spline over r of (angular integral) / 4 pi")
        else:
            rep.violation("D6.spherical-average", "atomgrid.AtomGrid.spherical_average", "values",
                          f"the spline is built from x = {[str(v) for v in (list(x) if x is not None else [])]}, "
                          f"y = {[str(v)[:60] for v in (list(y) if y is not None else [])]}; expected the radial points and the "
                          f"angular integral divided by 4 pi", here)
    # ---- D4
    n4 = 0
    for degs in ((3, 5), (5, 5), (5, 3), (4, 6), (6, 4)):
        at = Atom(cx, degs=degs)
        it = at.interp()
        at.bind(it, "integrate_angular_coordinates")
        here = cx.loc("radial_component_splines")
        ret = cx.guard("AtomGrid.radial_component_splines", it.call_def, cx.m["radial_component_splines"].node,
                       [at.obj, e10.arr(at.f)], {}, {})
        grid_harm = [h for h in at.harm if h[1] == "grid"]
        if len(grid_harm) != 1 or grid_harm[0][0] != at.L:
            rep.violation("D4.radial-components", "atomgrid.AtomGrid.radial_component_splines", "basis-degree",
                          f"degrees {degs}: the basis on the grid points is generated {len(grid_harm)} time(s) with degree "
                          f"{[h[0] for h in grid_harm]}; expected once with l_max // 2 = {at.L}", here)
            continue
        if ret is None or len(list(ret)) != at.rows or len(at.splines) != at.rows:
            rep.violation("D4.radial-components", "atomgrid.AtomGrid.radial_component_splines", "count",
                          f"degrees {degs}: {len(at.splines)} splines for {at.rows} harmonic rows", here)
            continue
        bad = False
        for i in range(at.rows):
            x, y = at.splines[i]
            if x is None or list(x) != at.rk or y is None or len(list(y)) != 2:
                rep.violation("D4.radial-components", "atomgrid.AtomGrid.radial_component_splines", "abscissa",
                              f"degrees {degs}: spline {i} is not built over the radial points with one value per shell", here)
                bad = True
                break
            for k in range(2):
                n4 += 1
                keep = i < (degs[k] // 2 + 1) ** 2
                want = at.shell_sum([sp.Symbol(f"B_{i}_{n}") * at.f[n] for n in range(at.N)], k) if keep else sp.Integer(0)
                if not _eq(y[k], want):
                    rep.violation("D4.radial-components", "atomgrid.AtomGrid.radial_component_splines",
                                  "projection" if keep else "truncation",
                                  f"degrees {degs}, harmonic row {i}, shell {k}: the value handed to the spline is `{str(y[k])[:140]}`; "
                                  + ("expected the shell sum of Y_i f w with the radial factor removed" if keep else
                                     f"a shell of degree {degs[k]} resolves only the first {(degs[k] // 2 + 1) ** 2} rows: the value must be 0"), here)
                    bad = True
                    break
            if bad:
                break
        if not bad:
            rep.ok("D4.radial-components", f"AtomGrid.radial_component_splines[degrees {degs}]", here,
                   f"{at.rows} splines over r of the shell projections, truncated on lower-degree shells")
    rep.floor("D4 entries", n4, 3 * 9 * 2 + 2 * 16 * 2)
    # ---- D8: a second grid with the same degrees but other angles (another rotation) projects onto its own basis
    a1, a2 = Atom(cx, tag="a"), Atom(cx, tag="b")
    here = cx.loc("radial_component_splines")

    def harmonics(l, theta, phi):
        first = str(list(theta)[0])
        for at in (a1, a2):
            if first.startswith(f"gth{at.tag}"):
                return at.ext["generate_real_spherical_harmonics"](l, theta, phi)
        raise e10.Undecided("harmonics at unknown angles")

    def cubic(x=None, y=None, **kw):
        first = str(list(x)[0]) if x is not None else ""
        for at in (a1, a2):
            if first.startswith(f"rk{at.tag}"):
                return at.ext["CubicSpline"](x=x, y=y, **kw)
        raise e10.Undecided("a spline over unknown radial points")
    shared = e10.Interp(dict(cx.utils), {"generate_real_spherical_harmonics": harmonics, "CubicSpline": cubic,
                                         "AngularGrid": e10.Cls("AngularGrid")},
                        generic=a1.generic | a2.generic, module_globals=cx.atom_globals)
    ok = True
    for at in (a1, a2):
        at.interp(shared=shared)
        at.bind(shared, "integrate_angular_coordinates")
        cx.guard("AtomGrid.radial_component_splines", shared.call_def, cx.m["radial_component_splines"].node,
                 [at.obj, e10.arr(at.f)], {}, {})
    for at in (a1, a2):
        if len(at.splines) != at.rows:
            ok = False
            continue
        for i in range(at.rows):
            y = at.splines[i][1]
            for k in range(2):
                keep = i < (at.degs[k] // 2 + 1) ** 2
                want = at.shell_sum([sp.Symbol(f"B{at.tag}_{i}_{n}") * at.f[n] for n in range(at.N)], k) if keep else sp.Integer(0)
                if not _eq(y[k], want):
                    ok = False
    if ok:
        rep.ok("D8.own-basis", "AtomGrid.radial_component_splines[two grids, same degrees, different angles]", here,
               "each grid projects onto the harmonics at its own angles")
    else:
        rep.violation("D8.own-basis", "atomgrid.AtomGrid.radial_component_splines", "second-grid",
                      "two grids with the same method and degrees but different point angles (e.g. another rotation seed) are "
                      "decomposed one after the other: the second one is not projected onto the harmonics at its own angles "
                      "(a basis shared between grids must be keyed by everything the angles depend on)", here)


def _jacobian_inverse(r, th, ph):
    """d(r, theta, phi)/d(x, y, z) from the parametrisation (theta azimuth, phi polar)."""
    sp = _sp()
    X = sp.Matrix([r * sp.sin(ph) * sp.cos(th), r * sp.sin(ph) * sp.sin(th), r * sp.cos(ph)])
    J = X.jacobian(sp.Matrix([r, th, ph]))
    return sp.simplify(J.inv())


def rule_interpolant(rep, cx):
    """D1, D2, D3."""
    sp = _sp()
    e10 = cx.e10
    here = cx.loc("interpolate")
    n1 = n2 = n3 = 0

    def fresh():
        at = Atom(cx)
        it = at.interp()
        k = {"n": 0}

        def rcs(vals):
            at.rcs_vals = vals
            out = []
            for i in range(at.rows):
                out.append((lambda i_: (lambda r, nu=0: e10.Fn(f"S_{i_}" + (f"_d{int(nu)}" if nu else ""))(r)))(i))
            return out
        at.obj.attrs["radial_component_splines"] = rcs
        low = cx.guard("AtomGrid.interpolate", it.call_def, cx.m["interpolate"].node, [at.obj, e10.arr(at.f)], {}, {})
        if not callable(low):
            raise AnalysisError("AtomGrid.interpolate does not return a function")
        if list(getattr(at, "rcs_vals", [])) != at.f:
            rep.violation("D1.interpolant-is-sum", "atomgrid.AtomGrid.interpolate", "values",
                          "the radial components are not built from the caller's function values", here)
        return at, low

    def S(i, n, at, nu=0):
        return sp.Function(f"S_{i}" + (f"_d{nu}" if nu else ""))(at.r[n])

    P = e10.Unknown("cartesian points")
    # ---- D1
    for kw, nu, label in (({}, 0, "values"), ({"deriv": 1, "only_radial_deriv": True}, 1, "radial derivative 1"),
                          ({"deriv": 2, "only_radial_deriv": True}, 2, "radial derivative 2"),
                          ({"deriv": 3, "only_radial_deriv": True}, 3, "radial derivative 3")):
        at, low = fresh()
        out = cx.guard("AtomGrid.interpolate.interpolate_low", low, P, **kw)
        if not hasattr(out, "shape") or out.shape != (2,):
            rep.violation("D1.interpolant-is-sum", "atomgrid.AtomGrid.interpolate", f"shape[{label}]",
                          f"{label}: the callable returns shape {getattr(out, 'shape', None)} for two points", here)
            continue
        for n in range(2):
            n1 += 1
            want = sum(S(i, n, at, nu) * sp.Symbol(f"Y_{i}_{n}") for i in range(at.rows))
            if not _eq(out[n], want):
                rep.violation("D1.interpolant-is-sum", "atomgrid.AtomGrid.interpolate", label,
                              f"{label}: the callable returns `{str(out[n])[:160]}`; expected the sum over all {at.rows} harmonic rows of "
                              f"the {'spline value' if not nu else 'order-%d derivative of the spline' % nu} times the harmonic at the point", here)
                break
        else:
            rep.ok("D1.interpolant-is-sum", f"AtomGrid.interpolate[{label}]", here, f"sum over {at.rows} rows")
    # ---- D2
    at, low = fresh()
    out = cx.guard("AtomGrid.interpolate.interpolate_low", low, P, deriv=1, deriv_spherical=True)
    flat = list(out.flatten()) if hasattr(out, "flatten") else []
    want_blocks = []
    for kind in ("r", "t", "p"):
        for n in range(2):
            if kind == "r":
                want_blocks.append(sum(S(i, n, at, 1) * sp.Symbol(f"Y_{i}_{n}") for i in range(at.rows)))
            else:
                want_blocks.append(sum(S(i, n, at) * sp.Symbol(f"D{kind}_{i}_{n}") for i in range(at.rows)))
    # accepted layouts: the three blocks one after the other (as returned today) or one row per point
    alt = [want_blocks[b * 2 + n] for n in range(2) for b in range(3)]
    n2 += 1
    if len(flat) == 6 and (all(_eq(a, b) for a, b in zip(flat, want_blocks)) or
                           (getattr(out, "shape", None) == (2, 3) and all(_eq(a, b) for a, b in zip(flat, alt)))):
        rep.ok("D2.spherical-derivatives", "AtomGrid.interpolate[deriv=1, spherical]", here, "(sum S' Y, sum S dY/dtheta, sum S dY/dphi)")
    else:
        rep.violation("D2.spherical-derivatives", "atomgrid.AtomGrid.interpolate", "blocks",
                      f"the spherical derivatives are {[str(v)[:70] for v in flat][:6]}; expected, in the order r, theta, phi: the radial "
                      f"derivative of the splines times the harmonics, and the splines times the theta / phi derivatives of the harmonics "
                      f"(rows 0 / 1 of generate_derivative_real_spherical_harmonics)", here)
    # ---- D3
    at, low = fresh()
    out = cx.guard("AtomGrid.interpolate.interpolate_low", low, P, deriv=1)
    if not hasattr(out, "shape") or out.shape != (2, 3):
        rep.violation("D3.cartesian-chain-rule", "atomgrid.AtomGrid.interpolate", "shape",
                      f"the Cartesian gradient has shape {getattr(out, 'shape', None)} for two points", here)
    else:
        for n in range(2):
            r, th, ph = at.r[n], at.th[n], at.ph[n]
            Jinv = _jacobian_inverse(r, th, ph)
            fq = [sum(S(i, n, at, 1) * sp.Symbol(f"Y_{i}_{n}") for i in range(at.rows)),
                  sum(S(i, n, at) * sp.Symbol(f"Dt_{i}_{n}") for i in range(at.rows)),
                  sum(S(i, n, at) * sp.Symbol(f"Dp_{i}_{n}") for i in range(at.rows))]
            for a in range(3):
                n3 += 1
                want = sum(Jinv[b, a] * fq[b] for b in range(3))
                if sp.simplify(sp.expand(out[n, a] - want)) != 0:
                    rep.violation("D3.cartesian-chain-rule", "utils.convert_derivative_from_spherical_to_cartesian", "xyz"[a],
                                  f"component {'xyz'[a]} of the Cartesian gradient is `{str(out[n, a])[:200]}`; the chain rule with "
                                  f"x = r sin(phi) cos(theta), y = r sin(phi) sin(theta), z = r cos(phi) gives "
                                  f"`{str(sp.simplify(want))[:200]}`", here)
                    break
            else:
                continue
            break
        else:
            rep.ok("D3.cartesian-chain-rule", "AtomGrid.interpolate[deriv=1]", here, "gradient = J^-T (f_r, f_theta, f_phi), J from the parametrisation")
    rep.floor("D1 entries", n1, 8)
    rep.floor("D3 entries", n3, 6)


def rule_molecule(rep, cx):
    """D7."""
    sp = _sp()
    e10 = cx.e10
    here = cx.loc("mol_interpolate")
    N, idx = 5, [0, 2, 5]
    fv = e10.arr([sp.Symbol(f"f{n}") for n in range(N)])
    aw = e10.arr([sp.Symbol(f"w{n}") for n in range(N)])
    calls, opts = [], []

    def make_atom(a):
        def interpolate(vals):
            calls.append((a, vals))

            def low(points, *args, **kw):
                opts.append((a, args, kw))
                return e10.arr([sp.Symbol(f"I{a}_{n}") for n in range(2)])
            return low
        return e10.Obj(f"atom{a}", cls="AtomGrid", interpolate=interpolate)
    grids = [make_atom(a) for a in range(2)]
    mol = e10.Obj("molgrid", cls="MolGrid", atgrids=grids, aim_weights=aw, indices=e10.arr(idx),
                  atcoords=e10._obj_array([[sp.Symbol(f"c{a}{k}") for k in range(3)] for a in range(2)]),
                  __getitem__=lambda i: grids[int(i)], size=N)
    # the private fields behind the read-only properties (a helper of the class may read them directly)
    for pub, priv in (("atgrids", "_atgrids"), ("aim_weights", "_aim_weights"), ("indices", "_indices"), ("atcoords", "_atcoords")):
        mol.attrs[priv] = mol.attrs[pub]
    it = e10.Interp({g.name: g.node for g in cx.repo.funcs.values()
                     if g.module == "molgrid" and g.cls is None and g.parent is None and isinstance(g.node, ast.FunctionDef)}, {},
                    module_globals={k: v for k, v in e10.module_globals_of(cx.repo.modules["molgrid"].tree).items()
                                    if not isinstance(v, ast.ClassDef)})
    mol.resolver = e10.class_resolver(cx.repo, "MolGrid", mol, it)
    low = cx.guard("MolGrid.interpolate", it.call_def, cx.m["mol_interpolate"].node, [mol, fv], {}, {})
    if not callable(low):
        raise AnalysisError("MolGrid.interpolate does not return a function")
    ok = True
    if [a for a, _ in calls] != [0, 1]:
        rep.violation("D7.molecular-assembly", "molgrid.MolGrid.interpolate", "every-atom",
                      f"for a molecule of two atoms the atomic interpolants are built for atoms {[a for a, _ in calls]}", here)
        ok = False
    for a, vals in calls:
        want = [fv[n] * aw[n] for n in range(idx[a], idx[a + 1])]
        got = list(vals) if hasattr(vals, "__len__") else []
        if len(got) != len(want) or any(sp.expand(x - y) != 0 for x, y in zip(got, want)):
            rep.violation("D7.molecular-assembly", "molgrid.MolGrid.interpolate", "segment",
                          f"atom {a} receives {[str(x) for x in got]}; expected its own segment of w_A f: {[str(x) for x in want]}", here)
            ok = False
    D, DS, OR = sp.Symbol("DERIV"), sp.Symbol("DSPH"), sp.Symbol("ONLYR")
    ps = None
    out = cx.guard("MolGrid.interpolate.interpolate_low", low, e10.Unknown("points"), D, DS, OR)
    want = [sp.Symbol(f"I0_{n}") + sp.Symbol(f"I1_{n}") for n in range(2)]
    if not hasattr(out, "shape") or out.shape != (2,) or any(sp.expand(out[n] - want[n]) != 0 for n in range(2)):
        rep.violation("D7.molecular-assembly", "molgrid.MolGrid.interpolate", "sum",
                      f"the molecular interpolant returns {[str(x) for x in (list(out) if hasattr(out, '__len__') else [out])]}; expected "
                      f"the sum of the atomic interpolants {[str(x) for x in want]}", here)
        ok = False
    for a, args, kw in opts:
        vals = list(args) + [kw.get(k) for k in ("deriv", "deriv_spherical", "only_radial_deriv") if k in kw]
        if sorted(map(str, vals)) != sorted(map(str, [D, DS, OR])) or (len(args) == 3 and list(args) != [D, DS, OR]):
            rep.violation("D7.molecular-assembly", "molgrid.MolGrid.interpolate", "options",
                          f"the atomic interpolant of atom {a} is evaluated with the options {[str(v) for v in vals]}; the caller's "
                          f"(deriv, deriv_spherical, only_radial_derivs) must be forwarded in this order", here)
            ok = False
    if ok:
        rep.ok("D7.molecular-assembly", "MolGrid.interpolate[two atoms]", here, "own segment of w_A f per atom, summed, options forwarded")


def run(tier="quick", root="/repo", evidence_dir=None, quiet=False):
    rep = Report(PROP, tier, root, EXPLANATION, RULE, assumptions=[
        "rows of generate_real_spherical_harmonics / generate_derivative_real_spherical_harmonics correspond to each other; "
        "row block [0] of the latter is the derivative with respect to theta (azimuth), [1] with respect to phi (polar) (documented)",
        "spherical convention theta = azimuth, phi = polar angle: x = r sin(phi) cos(theta), y = r sin(phi) sin(theta), z = r cos(phi) "
        "(convert_cart_to_sph documents it)",
        "CubicSpline(x, y)(r, k) is the k-th derivative of the interpolant of (x, y); grid weights carry the radial factor r_k^2 w_k (C05)",
        "evaluation radii and polar angles are generic (positive, above every literal cut-off below 1e-3)",
    ])
    repo = get_repo(root)
    cx = Cx(repo)
    rep.attempt(rule_projection, rep, cx)
    rep.attempt(rule_interpolant, rep, cx)
    rep.attempt(rule_molecule, rep, cx)
    rep.extra["source_digest"] = repo.digest(["atomgrid", "molgrid", "utils"])
    return rep.finish(evidence_dir=evidence_dir, quiet=quiet)
