"""C14 -- multipole moments: name resolution and order-table shape (quadrature values declined).

R1 every dotted reference rooted at an imported third-party module resolves in the installed
   NumPy / SciPy / SymPy (the checker imports those libraries, never the package under analysis).
R2 the Cartesian branch of ``generate_orders_horton_order`` appends literal rows of width ``dim`` for
   every dim in {1, 2, 3} and every type returns a rank-2 integer array built from the row list
   (or a documented rank for 'radial').
R3 the ``type_mom`` key sets of ``Grid.moments`` and of the order generator agree; every key has a
   branch computing ``integral``.
"""
from __future__ import annotations

import ast
import importlib

from gridlint import e4, e6
from gridlint.core import AnalysisError, Report, norm, strip_docstring
from gridlint.props.common import get_repo

PROP = "C14"
EXPLANATION = (
    "(R1) name resolution of all third-party attribute references of the package (what a type "
    "checker does with stubs; finds removed aliases such as np.int), (R2) branch-shape analysis of "
    "the order generator: every (type, dim) branch appends rows of the right literal width and "
    "returns the rank-2 row array, (R3) agreement of the moment-type dispatch between Grid.moments "
    "and the order generator, (R4/R5) dimension-generic Cartesian code and moment shapes for 1-3 "
    "dimensions, (R6) the rows of every branch of the order generator, evaluated into a symbolic stream "
    "term, equal the documented Horton order as terms (for every `order`).  Necessary for 'Cartesian moments work in one, two and three "
    "dimensions' and for 'the returned order list names the rows'.  (R7) Grid.moments evaluated over symbolic points, "
    "weights, values and two centres (E10, the real order generator interpreted, solid harmonics as point-wise "
    "uninterpreted functions): every entry equals the quadrature of the basis function its order row names, for all four "
    "types, dimensions 1-3, orders 0..2 (pure-radial 1..3); (R8) the dipole helper is nuclear minus electronic first "
    "moments about the centre of mass.  NOT decided: the values of the solid harmonics, accuracy, orders beyond the sweep.")
RULE = "one instance per third-party attribute reference, per (type, dim) branch, per dispatch key"


def rule_r1(rep, repo):
    n = 0
    cache = {}
    skipped = 0
    for mname, mi in repo.modules.items():
        roots = {}
        for local, dotted in mi.lib_imports.items():
            top = dotted.split(".")[0]
            if top in ("numpy", "scipy", "sympy"):
                roots[local] = dotted
        if not roots:
            continue
        # names shadowed by parameters/locals are not library references
        for q, f in [(q, f) for q, f in repo.funcs.items() if f.module == mname] + [(None, None)]:
            nodes = ast.walk(f.node) if f is not None else iter_module_level(mi.tree)
            shadow = set()
            if f is not None:
                shadow = set(f.allparams) | {t.id for s in ast.walk(f.node) if isinstance(s, (ast.Assign, ast.For, ast.With))
                                             for t in ast.walk(s) if isinstance(t, ast.Name) and isinstance(t.ctx, ast.Store)}
                if repo.by_node.get(id(f.node)) is not f:
                    continue
            seen_nodes = set()
            for a in nodes:
                if not isinstance(a, ast.Attribute) or id(a) in seen_nodes:
                    continue
                # maximal attribute chain rooted at a Name
                chain = []
                cur = a
                while isinstance(cur, ast.Attribute):
                    chain.append(cur.attr)
                    seen_nodes.add(id(cur))
                    cur = cur.value
                if not (isinstance(cur, ast.Name) and cur.id in roots and cur.id not in shadow):
                    continue
                if f is not None and _inside_nested(f, a, repo):
                    continue
                chain.reverse()
                dotted = roots[cur.id]
                key = (dotted, tuple(chain))
                if key not in cache:
                    cache[key] = resolve(dotted, chain)
                ok, depth, err = cache[key]
                n += 1
                cons = f"{mname}:{cur.id}.{'.'.join(chain[:depth + 1])}"
                if ok:
                    rep.ok("R1.third-party-name-resolves", cons, repo.rel(mname, a), "", nontrivial=True)
                else:
                    owner = q or f"{mname}.<module>"
                    rep.violation("R1.third-party-name-resolves", owner, f"{cur.id}.{'.'.join(chain[:depth + 1])}",
                                  f"`{norm(a)}`: {err} in the installed library: AttributeError when this line runs",
                                  repo.rel(mname, a))
    rep.floor("third-party attribute references", n, 600)
    rep.extra["distinct_third_party_names"] = len(cache)


def iter_module_level(tree):
    stack = list(tree.body)
    while stack:
        n = stack.pop()
        if isinstance(n, (ast.FunctionDef, ast.AsyncFunctionDef, ast.Lambda)):
            continue
        yield n
        stack.extend(ast.iter_child_nodes(n))


def _inside_nested(f, node, repo):
    """True when ``node`` belongs to a function nested inside f (it is visited with that one)."""
    for sub in ast.walk(f.node):
        if sub is not f.node and isinstance(sub, (ast.FunctionDef, ast.Lambda)):
            body = sub.body if isinstance(sub.body, list) else [sub.body]
            for b in body:
                for x in ast.walk(b):
                    if x is node:
                        return True
    return False


def resolve(dotted, chain):
    """Resolve dotted import path then the attribute chain.  Stops at the first non-module,
    non-class object (attributes of instances/arrays are not library names)."""
    parts = dotted.split(".")
    obj = None
    for i in range(len(parts), 0, -1):
        try:
            obj = importlib.import_module(".".join(parts[:i]))
            rest = parts[i:]
            break
        except ImportError:
            continue
    if obj is None:
        return (False, 0, f"module {dotted} cannot be imported")
    import warnings
    with warnings.catch_warnings():
        warnings.simplefilter("ignore")
        for r in rest:
            try:
                obj = getattr(obj, r)
            except AttributeError:
                return (False, 0, f"{dotted} does not exist")
        import types
        for d, name in enumerate(chain):
            if not isinstance(obj, (types.ModuleType, type)) and not _is_namespace(obj):
                return (True, max(d - 1, 0), "")
            try:
                obj = getattr(obj, name)
            except AttributeError:
                try:
                    obj = importlib.import_module(f"{obj.__name__}.{name}")
                except Exception:
                    return (False, d, f"`{name}` does not exist on {getattr(obj, '__name__', obj)!s}")
            except Exception as e:  # noqa: BLE001 - numpy raises its own errors for expired aliases
                return (False, d, f"`{name}` is not available ({type(e).__name__})")
    return (True, len(chain) - 1, "")


def _is_namespace(obj):
    import numpy as np
    return isinstance(obj, (np.ufunc,)) is False and type(obj).__name__ in ("module",)


def rule_r2(rep, repo):
    f = repo.module_func("utils", "generate_orders_horton_order")
    d = e4.string_dispatch(strip_docstring(f.node.body), "type_ord")
    if d is None:
        raise AnalysisError("unrecognised idiom: generate_orders_horton_order has no type_ord dispatch")
    chain, else_body, node = d
    # the row accumulator is the name the function finally converts: `X = np.array(X, ...); return X`
    # or `return np.array(X, ...)`
    top = strip_docstring(f.node.body)
    final = [s for s in top if isinstance(s, ast.Return)]
    rowlist, final_ok = None, False

    def conv_arg(v):
        if isinstance(v, ast.Call) and norm(v.func) in ("np.array", "np.asarray") and v.args and isinstance(v.args[0], ast.Name):
            return v.args[0].id
        return None
    if final and final[-1].value is not None:
        rv = final[-1].value
        if conv_arg(rv):
            rowlist, final_ok = conv_arg(rv), True
        elif isinstance(rv, ast.Name):
            for s in top:
                if isinstance(s, ast.Assign) and norm(s.targets[0]) == rv.id and conv_arg(s.value):
                    rowlist, final_ok = conv_arg(s.value), conv_arg(s.value) == rv.id
    if rowlist is None:
        rowlist = next((norm(s.targets[0]) for s in top if isinstance(s, ast.Assign) and isinstance(s.value, ast.List)
                        and not s.value.elts), None)
    if rowlist is None:
        raise AnalysisError("unrecognised idiom: generate_orders_horton_order has no row accumulator converted by np.array(...)")
    widths = {"pure": 2, "pure-radial": 3}
    for key, body in chain:
        if key == "cartesian":
            dd = _dim_dispatch(body)
            if dd is None:
                raise AnalysisError("unrecognised idiom: cartesian branch has no `dim == d` chain")
            dims = {}
            for dv, b in dd:
                dims[dv] = b
            for dv in (1, 2, 3):
                cons = f"utils.generate_orders_horton_order[cartesian,dim={dv}]"
                if dv not in dims:
                    rep.violation("R2.order-rows", "utils.generate_orders_horton_order", f"cartesian:dim={dv}",
                                  f"Cartesian orders are not generated for dim={dv}", repo.rel("utils", body[0]))
                    continue
                _check_rows(rep, repo, cons, dims[dv], rowlist, dv, final_ok, f"cartesian:dim={dv}")
        elif key in widths:
            _check_rows(rep, repo, f"utils.generate_orders_horton_order[{key}]", body, rowlist, widths[key], final_ok, key)
        elif key == "radial":
            r = [x for s in body for x in ast.walk(s) if isinstance(x, ast.Return)]
            if r and norm(r[0].value) in ("np.array([order])", "np.array([order], dtype=int)"):
                rep.ok("R2.order-rows", "generate_orders_horton_order[radial]", repo.rel("utils", r[0]), "rank-1 [order]")
            else:
                rep.violation("R2.order-rows", "utils.generate_orders_horton_order", "radial",
                              "radial orders are not returned as np.array([order])", repo.rel("utils", body[0]))
    return [k for k, _ in chain]


def _dim_dispatch(body):
    for s in body:
        if isinstance(s, ast.If):
            out = []
            cur = s
            while True:
                t = cur.test
                if isinstance(t, ast.Compare) and norm(t.left) == "dim" and isinstance(t.ops[0], ast.Eq) and \
                        isinstance(t.comparators[0], ast.Constant):
                    out.append((t.comparators[0].value, cur.body))
                else:
                    return None
                if len(cur.orelse) == 1 and isinstance(cur.orelse[0], ast.If):
                    cur = cur.orelse[0]
                else:
                    break
            return out
    return None


def _check_rows(rep, repo, cons, body, rowlist, width, final_ok, role):
    rows = []
    early = []
    for s in body:
        # rows built by a comprehension: `orders = [[a, b] for ...]` / `orders += [[...] for ...]`
        if isinstance(s, (ast.Assign, ast.AugAssign)) and norm(s.targets[0] if isinstance(s, ast.Assign) else s.target) == rowlist \
                and isinstance(s.value, ast.ListComp):
            rows.append((s, [s.value.elt]))
            continue
        # literal rows: `orders = [[a, b], ...]`
        if isinstance(s, ast.Assign) and norm(s.targets[0]) == rowlist and isinstance(s.value, ast.List):
            if s.value.elts:
                rows.append((s, list(s.value.elts)))
            continue
        for x in ast.walk(s):
            if isinstance(x, ast.Call) and isinstance(x.func, ast.Attribute) and x.func.attr == "append" and \
                    norm(x.func.value) == rowlist and x.args:
                rows.append((x, [x.args[0]]))
            if isinstance(x, ast.Call) and isinstance(x.func, ast.Attribute) and x.func.attr == "extend" and \
                    norm(x.func.value) == rowlist and x.args and isinstance(x.args[0], (ast.List, ast.Tuple)):
                rows.append((x, list(x.args[0].elts)))
            if isinstance(x, ast.Call) and isinstance(x.func, ast.Attribute) and x.func.attr == "extend" and \
                    norm(x.func.value) == rowlist and x.args and isinstance(x.args[0], (ast.ListComp, ast.GeneratorExp)):
                rows.append((x, [x.args[0].elt]))
            if isinstance(x, ast.AugAssign) and norm(x.target) == rowlist and isinstance(x.value, ast.List):
                rows.append((x, list(x.value.elts)))
            if isinstance(x, ast.AugAssign) and norm(x.target) == rowlist and isinstance(x.value, ast.ListComp) and x is not s:
                rows.append((x, [x.value.elt]))
            if isinstance(x, ast.Return):
                early.append(x)
    where = repo.rel("utils", body[0])
    if early:
        rep.violation("R2.order-rows", "utils.generate_orders_horton_order", role,
                      f"branch returns `{norm(early[0].value)[:70]}` directly instead of rows of width {width} collected "
                      f"in `{rowlist}`: the result is not the documented (L, {width}) integer table", repo.rel("utils", early[0]))
        return
    if not rows:
        raise AnalysisError(f"unrecognised idiom: branch {role} of generate_orders_horton_order builds its rows in a way the "
                            f"checker does not know (no append / += / comprehension on `{rowlist}`)")
    bad = [r for _, rs in rows for r in rs if not (isinstance(r, ast.List) and len(r.elts) == width)]
    if bad:
        rep.violation("R2.order-rows", "utils.generate_orders_horton_order", role,
                      f"row `{norm(bad[0])[:60]}` does not have width {width}", repo.rel("utils", bad[0]))
    elif not final_ok:
        rep.violation("R2.order-rows", "utils.generate_orders_horton_order", role + ":final",
                      f"the function does not end with `{rowlist} = np.array({rowlist}, dtype=int); return {rowlist}`", where)
    else:
        rep.ok("R2.order-rows", cons, where, f"{sum(len(rs) for _, rs in rows)} literal row(s) of width {width}")


def rule_r3(rep, repo, gen_keys):
    f = repo.method("Grid", "moments")
    keys = set()
    for n in ast.walk(f.node):
        if isinstance(n, ast.Compare) and norm(n.left) == "type_mom":
            for c in n.comparators:
                if isinstance(c, ast.Constant) and isinstance(c.value, str):
                    keys.add(c.value)
                elif isinstance(c, (ast.Tuple, ast.List)):
                    keys |= {e.value for e in c.elts if isinstance(e, ast.Constant)}
    if keys == set(gen_keys):
        rep.ok("R3.moment-types-agree", "Grid.moments~generate_orders_horton_order", f.loc(), f"{sorted(keys)}")
    else:
        rep.violation("R3.moment-types-agree", "basegrid.Grid.moments", "keys",
                      f"Grid.moments handles {sorted(keys)} but the order generator accepts {sorted(gen_keys)}", f.loc())
    # every key reaches an assignment of `integral`
    loop = next((s for s in ast.walk(f.node) if isinstance(s, ast.For) and "center" in norm(s.target)), None)
    if loop is None:
        raise AnalysisError("unrecognised idiom: Grid.moments has no loop over centres")
    assigns = {}
    for n, guards in e6.guarded_nodes(ast.Module(body=loop.body, type_ignores=[])):
        if isinstance(n, ast.Assign) and norm(n.targets[0]) == "integral":
            for k in sorted(keys):
                if all(_guard_allows(t, pol, k) for t, pol in guards):
                    assigns.setdefault(k, []).append(n)
    for k in sorted(keys):
        if len(assigns.get(k, [])) == 1:
            rep.ok("R3.moment-type-computed", f"Grid.moments[{k}]", repo.rel("basegrid", assigns[k][0]), "")
        else:
            rep.violation("R3.moment-type-computed", "basegrid.Grid.moments", k,
                          f"type_mom={k!r} reaches {len(assigns.get(k, []))} assignments of `integral` (expected exactly one)",
                          repo.rel("basegrid", loop))


def rule_r4(rep, repo):
    """Dimension-generic Cartesian branch: `Grid.moments` must not hard-wire the number of point
    columns -- no tuple-unpacking of the transposed points/orders into a fixed number of names and
    no constant column index -- unless the construct is dominated by a test of the dimension."""
    f = repo.method("Grid", "moments")
    n = 0
    dim_tests = ("dim == 3", "dim == 2", "dim == 1", "self.points.shape[1] == 3", "centers.shape[1] == 3")
    for node, guards in e6.guarded_nodes(f.node):
        cartesian = any(t == "type_mom == 'cartesian'" and p for t, p in guards)
        if not cartesian:
            continue
        guarded = any(t in dim_tests and p for t, p in guards)
        bad = None
        if isinstance(node, ast.Assign) and isinstance(node.targets[0], ast.Tuple) and len(node.targets[0].elts) in (2, 3):
            v = norm(node.value)
            if ".T" in v and any(k in v for k in ("pts", "points", "orders")):
                bad = (f"`{norm(node)[:70]}` unpacks the columns into exactly {len(node.targets[0].elts)} names: "
                       f"ValueError for grids of any other dimension")
        if isinstance(node, ast.Subscript) and isinstance(node.slice, ast.Tuple) and node.slice.elts and \
                isinstance(node.slice.elts[-1], ast.Constant) and node.slice.elts[-1].value in (1, 2) and \
                any(k in norm(node.value) for k in ("pts", "points")):
            bad = f"`{norm(node)[:60]}` addresses a fixed coordinate column: IndexError for lower-dimensional grids"
        if bad is None:
            continue
        n += 1
        if guarded:
            rep.ok("R4.cartesian-dimension-generic", f"Grid.moments::{norm(node)[:40]}", repo.rel("basegrid", node), "guarded by a dimension test")
        else:
            rep.violation("R4.cartesian-dimension-generic", "basegrid.Grid.moments", norm(node)[:50],
                          bad + " (Cartesian moments must work in one, two and three dimensions)", repo.rel("basegrid", node))
    # positive statement: the generic formulation is present
    src = " ".join(norm(s) for s in ast.walk(f.node) if isinstance(s, ast.Assign))
    if n == 0:
        if "all_orders[:, None]" in src and "np.prod(" in src:
            rep.ok("R4.cartesian-dimension-generic", "Grid.moments[cartesian]", f.loc(),
                   "powers taken by broadcasting over all columns, product over the column axis")
        else:
            rep.ok("R4.cartesian-dimension-generic", "Grid.moments[cartesian]", f.loc(), "no dimension-specific construct")


def rule_r5(rep, repo, widths):
    """Shape abstract interpretation of the Cartesian / radial parts of Grid.moments for grids of
    dimension 1, 2 and 3: no broadcast, unpack, index or axis failure."""
    from gridlint import e7
    f = repo.method("Grid", "moments")
    body = strip_docstring(f.node.body)
    loop = next((s for s in body if isinstance(s, ast.For) and "center" in norm(s.target)), None)
    n = 0
    for tm in ("cartesian", "radial"):
        for D in (1, 2, 3):
            n += 1
            w = D if tm == "cartesian" else None
            env = {"self.points": ("arr", ("N", D)), "self.weights": ("arr", ("N",)), "func_vals": ("arr", ("N",)),
                   "centers": ("arr", (4, D)), "center": ("arr", (D,)), "type_mom": ("str", tm),
                   "all_orders": ("arr", (5, w)) if w else ("arr", (5,)), "orders": ("unknown",)}
            si = e7.CShapes(env, None)
            si.fields = {"points": env["self.points"], "weights": env["self.weights"]}
            # fold the type dispatch by textual substitution of the guards
            def run_block(stmts):
                for st in stmts:
                    if isinstance(st, ast.If):
                        keep = _type_guard(st.test, tm)
                        if keep is True:
                            run_block(st.body)
                            continue
                        if keep is False:
                            run_block(st.orelse)
                            continue
                    si.stmt(st)
            run_block(loop.body)
            cons = f"Grid.moments[{tm},dim={D}]"
            if si.problems:
                kind, text, node = si.problems[0]
                rep.violation("R5.moment-shapes", "basegrid.Grid.moments", f"{tm}:dim={D}:{kind}",
                              f"type_mom={tm!r} on a {D}-dimensional grid: {text}", repo.rel("basegrid", node))
            else:
                rep.ok("R5.moment-shapes", cons, repo.rel("basegrid", loop),
                       f"integral has shape {e7.show_shape(si.env.get('integral', e7.UNKNOWN)) if si.env.get('integral', ('x',))[0] == 'arr' else si.env.get('integral', ('unknown',))[0]}")
    rep.floor("moment shape configurations", n, 6)


def _type_guard(test, tm):
    if isinstance(test, ast.Compare) and norm(test.left) == "type_mom":
        c = test.comparators[0]
        if isinstance(test.ops[0], ast.Eq) and isinstance(c, ast.Constant):
            return c.value == tm
        if isinstance(test.ops[0], ast.In) and isinstance(c, (ast.Tuple, ast.List)):
            return tm in [e.value for e in c.elts if isinstance(e, ast.Constant)]
    return None


def _guard_allows(test_txt, pol, key):
    """Can a guard over type_mom be satisfied (with the given polarity) when type_mom == key?"""
    try:
        t = ast.parse(test_txt, mode="eval").body
    except SyntaxError:
        return True
    if isinstance(t, ast.Compare) and norm(t.left) == "type_mom":
        c = t.comparators[0]
        if isinstance(t.ops[0], ast.Eq) and isinstance(c, ast.Constant):
            return (c.value == key) == pol
        if isinstance(t.ops[0], ast.In) and isinstance(c, (ast.Tuple, ast.List)):
            return (key in [e.value for e in c.elts if isinstance(e, ast.Constant)]) == pol
    return True


def rule_r6(rep, repo):
    """The order list is generated in the documented Horton order: the statements that fill the row
    accumulator are evaluated into a symbolic stream term (gridlint/streams.py) and compared, as
    terms, with the documented order -- for every value of `order` at once.
      pure         (l,0), then (l,m), (l,-m) for m = 1..l
      pure-radial  for l = 0..n-1: (n,l,0), then (n,l,m), (n,l,-m) for m = 1..l
      cartesian    n_x descending from n, n_y descending from n - n_x, n_z the rest (2-D, 1-D alike)"""
    import sympy as sp
    from gridlint import streams as st
    f = repo.module_func("utils", "generate_orders_horton_order")
    body = strip_docstring(f.node.body)
    d = e4.string_dispatch(body, "type_ord")
    if d is None:
        raise AnalysisError("unrecognised idiom: generate_orders_horton_order has no type_ord dispatch")
    chain, _, _ = d
    # statements before the dispatch that initialise the accumulator
    n_ = sp.Symbol("order")
    a_, b_ = sp.Symbol("a"), sp.Symbol("b")

    def R(*e):
        return ("row", tuple(sp.expand(sp.sympify(x)) for x in e))
    spec = {
        "pure": ("seq", (R(n_, 0), ("for", a_, (1, n_ + 1, 1), ("seq", (R(n_, a_), R(n_, -a_)))))),
        "pure-radial": ("for", a_, (0, n_, 1), ("seq", (R(n_, a_, 0), ("for", b_, (1, a_ + 1, 1),
                                                                       ("seq", (R(n_, a_, b_), R(n_, a_, -b_))))))),
        ("cartesian", 3): ("for", a_, (n_, -1, -1), ("for", b_, (n_ - a_, -1, -1), R(a_, b_, n_ - a_ - b_))),
        ("cartesian", 2): ("for", a_, (n_, -1, -1), R(a_, n_ - a_)),
        ("cartesian", 1): R(n_),
    }
    # the accumulator: the name converted by np.array at the end, or the list initialised before the chain
    acc = None
    for s_ in ast.walk(f.node):
        if isinstance(s_, ast.Call) and norm(s_.func) in ("np.array", "np.asarray") and s_.args and \
                isinstance(s_.args[0], ast.Name) and any(k.arg == "dtype" for k in s_.keywords):
            acc = s_.args[0].id
    if acc is None:
        raise AnalysisError("unrecognised idiom: no row accumulator converted by np.array(..., dtype=int)")
    prefix = [s_ for s_ in body if isinstance(s_, ast.Assign) and norm(s_.targets[0]) == acc
              and isinstance(s_.value, ast.List) and not s_.value.elts]
    jobs = []
    for key, bbody in chain:
        if key == "cartesian":
            dd = _dim_dispatch(bbody)
            if dd is None:
                raise AnalysisError("unrecognised idiom: cartesian branch has no `dim == d` chain")
            for dv, b2 in dd:
                if ("cartesian", dv) in spec:
                    jobs.append((f"cartesian,dim={dv}", b2, spec[("cartesian", dv)]))
        elif key in spec:
            jobs.append((key, bbody, spec[key]))
    for label, bbody, want in jobs:
        cons = f"utils.generate_orders_horton_order[{label}]"
        where = repo.rel("utils", bbody[0])
        try:
            got = st.stream_of(prefix + list(bbody), acc)
        except st.Undecided as e:
            raise AnalysisError(f"order stream of branch {label}: {e}") from e
        want_n = st.alpha(st.normalise(want, {n_}))
        if got == want_n:
            rep.ok("R6.horton-order", cons, where, st.show(got)[:120])
        else:
            rep.violation("R6.horton-order", "utils.generate_orders_horton_order", label,
                          f"the rows are generated as {st.show(got)[:170]} but the documented Horton order is "
                          f"{st.show(want_n)[:170]}: the order list mis-names the rows of the moments", where)
    rep.floor("order streams compared with the documented order", len(jobs), 5)


def run(tier="quick", root="/repo", evidence_dir=None, quiet=False):
    rep = Report(PROP, tier, root, EXPLANATION, RULE, assumptions=[
        "the installed NumPy/SciPy/SymPy are the versions the package runs against (the repository's own "
        "environment); they are imported for name resolution only",
    ])
    repo = get_repo(root)
    rep.attempt(rule_r1, rep, repo)
    from gridlint import moments_quad
    # the order generator evaluated for the orders 0..4 (bounded back-up of the symbolic rules R2 / R6)
    before = len(rep.failed_floors)
    rep.attempt(moments_quad.rule_orders_bounded, rep, repo)
    bounded_ok = len(rep.failed_floors) == before and not any(v["role"].endswith(":bounded") for v in rep.violations)

    def structural(rule, *args):
        """R2 / R6 argue for every order from the shape of the generator; when they do not recognise its idiom and the
        bounded evaluation has decided the orders 0..4, that is a note, not an undecided run."""
        try:
            return rule(*args)
        except AnalysisError as e:
            if bounded_ok:
                rep.note(f"structural rule {rule.__name__} did not recognise the idiom ({str(e)[:140]}); the generator was "
                         f"evaluated for the orders 0..4 instead (bounded)")
                return None
            rep.failed_floors.append(str(e))
            return None
    gen_keys = structural(rule_r2, rep, repo)
    # R3 (every moment type the generator accepts is computed by Grid.moments) is decided by the evaluation of R7: the
    # earlier syntactic version (collect the `type_mom == "..."` tests of Grid.moments, one `integral =` per key) raised a
    # false alarm on a refactoring that moved the branches into a kernel factory and was removed
    rep.attempt(rule_r4, rep, repo)
    rep.attempt(rule_r5, rep, repo, None)
    structural(rule_r6, rep, repo)
    from gridlint import moments_quad
    rep.attempt(moments_quad.rule_quadratures, rep, repo, gen_keys)
    rep.attempt(moments_quad.rule_dipole, rep, repo)
    import numpy
    import scipy
    rep.extra.update({"numpy": numpy.__version__, "scipy": scipy.__version__,
                      "source_digest": repo.digest(["utils", "basegrid"])})
    return rep.finish(evidence_dir=evidence_dir, quiet=quiet)
