"""C11 -- periodic local grids: three guards (the image enumeration itself is declined).

R1 contradictory emptiness belief: a list accumulator whose ``append`` can be skipped
   (``if ...: continue`` inside the filling loop, or a loop that may run zero times) must be
   tested for emptiness before ``np.concatenate/vstack/hstack`` is applied to it.
R2 plane spacings are non-negative on every branch (sign domain).
R3 without lattice vectors the class is no stricter than the plain grid: every argument rejection
   of ``PeriodicGrid.get_localgrid`` that ``Grid.get_localgrid`` does not have must be nested under
   a lattice-presence test, or the method must delegate to the base method when there is no lattice.
R4 the C10 rules (memo on the points, guarded index arrays) hold for this override.
R5 shape abstract interpretation: the constructor and the pre-loop part of get_localgrid are free of
   broadcasting/matmul/index/empty-reduction failures in every admissible configuration (flat 1-D or
   (N, D) points, 0..D lattice vectors, wrap on/off) and keep one row per lattice vector.
"""
from __future__ import annotations

import ast

from gridlint import e6
from gridlint.core import AnalysisError, Report, norm, strip_docstring
from gridlint.props.common import get_repo

PROP = "C11"
EXPLANATION = (
    "Guard analyses on periodicgrid.py: (R1) the image loop itself skips empty ball queries, so the "
    "accumulators may be empty and must be tested before being concatenated (covers 'spheres "
    "containing no image'); (R2) a sign domain over the expressions assigned to the plane spacings "
    "must prove them non-negative on every branch (covers 'any orientation or sign of the lattice "
    "vectors': a negative spacing reverses the integer image range); (R3) argument rejections that "
    "the plain grid does not have must depend on the presence of lattice vectors (covers 'without "
    "lattice vectors the class behaves as the plain grid').  NOT decided: completeness and "
    "uniqueness of the integer image range, wrapping arithmetic (numerical/geometric).")
RULE = "accumulator x stacking call; assignments to the spacing field; rejections of get_localgrid vs the base method"

NONNEG_CALLS = {"np.linalg.norm", "np.abs", "np.absolute", "np.fabs", "abs", "np.sqrt", "np.square", "np.hypot",
                "numpy.linalg.norm", "numpy.abs", "np.exp", "np.cosh"}


def nonneg(e):
    """Sign domain: True when the expression is provably >= 0 (elementwise)."""
    if isinstance(e, ast.Constant):
        return isinstance(e.value, (int, float)) and e.value >= 0
    if isinstance(e, ast.Call):
        if norm(e.func) in NONNEG_CALLS:
            return True
        if isinstance(e.func, ast.Attribute) and e.func.attr in ("__abs__",):
            return True
        return False
    if isinstance(e, ast.BinOp):
        if isinstance(e.op, (ast.Mult, ast.Div, ast.Add)):
            return nonneg(e.left) and nonneg(e.right)
        if isinstance(e.op, ast.Pow):
            return (isinstance(e.right, ast.Constant) and isinstance(e.right.value, int) and e.right.value % 2 == 0) \
                or nonneg(e.left)
        return False
    if isinstance(e, ast.UnaryOp) and isinstance(e.op, ast.UAdd):
        return nonneg(e.operand)
    if isinstance(e, ast.IfExp):
        return nonneg(e.body) and nonneg(e.orelse)
    return False


def rule_r1(rep, repo, f):
    body = strip_docstring(f.node.body)
    accs = {}
    derived = {}   # list built by a comprehension over an accumulator: empty exactly when that one is
    for s in body:
        if isinstance(s, ast.Assign) and isinstance(s.value, ast.List) and not s.value.elts and \
                isinstance(s.targets[0], ast.Name):
            accs[s.targets[0].id] = s
        elif isinstance(s, ast.Assign) and isinstance(s.value, ast.ListComp) and isinstance(s.targets[0], ast.Name) and \
                len(s.value.generators) == 1 and not s.value.generators[0].ifs and \
                isinstance(s.value.generators[0].iter, ast.Name) and s.value.generators[0].iter.id in accs:
            accs[s.targets[0].id] = s
            derived[s.targets[0].id] = s.value.generators[0].iter.id
        elif isinstance(s, ast.Assign) and isinstance(s.targets[0], (ast.Tuple, ast.List)) and isinstance(s.value, ast.Call) and \
                norm(s.value.func) == "zip" and len(s.value.args) == 1 and isinstance(s.value.args[0], ast.Starred) and \
                isinstance(s.value.args[0].value, ast.Name) and s.value.args[0].value.id in accs and \
                all(isinstance(t, ast.Name) for t in s.targets[0].elts):
            # `a, b, c = zip(*found)`: the columns of an accumulator of tuples; they are empty exactly when it is (and the
            # unpacking itself fails on an empty accumulator)
            for t in s.targets[0].elts:
                accs[t.id] = s
                derived[t.id] = s.value.args[0].value.id
    stack_calls = [n for n in ast.walk(f.node) if isinstance(n, ast.Call) and
                   norm(n.func) in ("np.concatenate", "np.vstack", "np.hstack", "np.stack", "np.array") and n.args
                   and isinstance(n.args[0], ast.Name) and n.args[0].id in accs]
    if not accs or not stack_calls:
        raise AnalysisError("unrecognised idiom: PeriodicGrid.get_localgrid has no list accumulators that are stacked")
    # can the append be skipped?
    loops = [s for s in body if isinstance(s, (ast.For, ast.While))]
    skippable = {}
    for lp in loops:
        for a in accs:
            app = [n for n in ast.walk(lp) if isinstance(n, ast.Call) and isinstance(n.func, ast.Attribute)
                   and n.func.attr == "append" and norm(n.func.value) == a]
            if app:
                # a loop may always run zero times; additionally record an explicit skip
                cont = [n for n in ast.walk(lp) if isinstance(n, ast.Continue) and n.lineno < app[0].lineno]
                guarded_app = any(isinstance(n, ast.If) and any(x is app[0] for x in ast.walk(n)) for n in ast.walk(lp))
                skippable[a] = "explicit `continue` before the append" if cont else \
                    "the append is conditional" if guarded_app else "loop may run zero times"
    for a, src in derived.items():
        root = src
        while root in derived:
            root = derived[root]
        if root in skippable:
            skippable[a] = f"built from `{root}`, which can be empty ({skippable[root]})"
    guards_by_node = {id(n): g for n, g in e6.guarded_nodes(f.node)}
    for c in stack_calls:
        a = c.args[0].id
        if a not in skippable:
            continue
        g = guards_by_node.get(id(c), ())
        sib = list(accs)
        pos = {f"len({x}) > 0" for x in sib} | {f"len({x}) != 0" for x in sib} | {x for x in sib} | \
            {f"len({x})" for x in sib}
        neg = {f"len({x}) == 0" for x in sib} | {f"not {x}" for x in sib} | {f"not len({x})" for x in sib} | \
            {f"len({x}) < 1" for x in sib}
        if norm(c.func) == "np.array":
            continue
        if e6.implies(g, pos, neg):
            rep.ok("R1.accumulator-tested-before-stacking", f"{f.qual}:{a}", repo.rel(f.module, c),
                   f"{skippable[a]}; stacking dominated by an emptiness test")
        else:
            rep.violation("R1.accumulator-tested-before-stacking", f.qual, a,
                          f"`{norm(c)}` is applied to a list that can be empty ({skippable[a]}): a sphere containing no "
                          f"periodic image raises ValueError instead of giving an empty local grid", repo.rel(f.module, c))
    return len(stack_calls)


def rule_r2(rep, repo):
    init = repo.method("PeriodicGrid", "__init__")
    getter = repo.method("PeriodicGrid", "spacings")
    body = strip_docstring(getter.node.body)
    if not (len(body) == 1 and isinstance(body[0], ast.Return) and norm(body[0].value).startswith("self.")):
        raise AnalysisError("unrecognised idiom: PeriodicGrid.spacings is not a plain field getter")
    fld = norm(body[0].value)[5:]
    stores = [s for s in ast.walk(init.node) if isinstance(s, ast.Assign) and norm(s.targets[0]) == f"self.{fld}"]
    if not stores:
        raise AnalysisError(f"anchor vanished: no assignment of self.{fld} in PeriodicGrid.__init__")
    n = 0
    for st in stores:
        exprs = [st.value]
        if isinstance(st.value, ast.Name):
            exprs = [s.value for s in ast.walk(init.node) if isinstance(s, ast.Assign)
                     and norm(s.targets[0]) == st.value.id and s.lineno < st.lineno]
        # a private helper that computes the spacings: every value it returns is judged
        expanded = []
        for e in exprs:
            if isinstance(e, ast.Call) and isinstance(e.func, ast.Attribute) and norm(e.func.value) in ("self", "cls", "PeriodicGrid"):
                h = repo.resolve_method("PeriodicGrid", e.func.attr)
                if h is not None:
                    rets = [r.value for r in ast.walk(h.node) if isinstance(r, ast.Return) and r.value is not None]
                    if rets:
                        expanded += [(r, h) for r in rets]
                        continue
            expanded.append((e, init))
        for e, owner in expanded:
            n += 1
            branch = _branch_label(owner.node, e) if owner is init else f"{owner.name}:{_branch_label(owner.node, e)}"
            if nonneg(e):
                rep.ok("R2.spacings-nonnegative", f"PeriodicGrid.__init__[{branch}]", repo.rel(owner.module, e), norm(e)[:60])
            else:
                rep.violation("R2.spacings-nonnegative", init.qual, branch,
                              f"`{norm(e)[:70]}` is not provably non-negative: with a negative lattice vector the plane "
                              f"spacing is negative, which reverses the integer range of lattice translations in "
                              f"get_localgrid", repo.rel(init.module, e))
    rep.floor("assignments of the plane spacings", n, 2)


def _branch_label(fn, node):
    for n, g in e6.guarded_nodes(fn):
        if n is node or any(x is node for x in ast.walk(n)):
            if g:
                t, p = g[-1]
                return ("" if p else "not ") + t
    return "top"


def rejections(f):
    """[(test text, node)] of top-level `if T: raise` statements."""
    out = []
    for s in strip_docstring(f.node.body):
        if isinstance(s, ast.If) and not s.orelse and s.body and isinstance(s.body[-1], ast.Raise):
            out.append((norm(s.test), s))
    return out


LATTICE_TESTS = ("self._realvecs.size", "len(self._realvecs)", "self.realvecs.size", "len(self.realvecs)",
                 "self._realvecs.shape[0]", "self._recivecs.size", "len(self._spacings)", "self._spacings.size")


def rule_r3(rep, repo, f):
    base = repo.method("Grid", "get_localgrid")
    base_rej = {t for t, _ in rejections(base)}
    # what does the base accept that the override rejects?  compare the radius tests
    delegates = None
    for s in strip_docstring(f.node.body):
        if isinstance(s, ast.If) and any(lt in norm(s.test) for lt in LATTICE_TESTS) and \
                any(isinstance(x, ast.Return) and "super().get_localgrid(" in norm(x) for x in ast.walk(s)):
            delegates = s
    n = 0
    for t, node in rejections(f):
        if t in base_rej:
            rep.ok("R3.no-stricter-than-plain-grid", f"{f.qual}:{t}", repo.rel(f.module, node), "same rejection as Grid.get_localgrid")
            continue
        # equivalent formulations of base rejections
        if t in ("radius < 0", "not radius >= 0") or "center.shape" in t:
            rep.ok("R3.no-stricter-than-plain-grid", f"{f.qual}:{t}", repo.rel(f.module, node), "rejected by the plain grid as well")
            continue
        n += 1
        rejects_inf = "isfinite(radius)" in t and "radius == np.inf" not in t
        under_lattice = any(lt in t for lt in LATTICE_TESTS)
        if delegates is not None and delegates.lineno < node.lineno or under_lattice:
            rep.ok("R3.no-stricter-than-plain-grid", f"{f.qual}:{t}", repo.rel(f.module, node),
                   "only reached when lattice vectors are present")
        else:
            what = ("an infinite radius (which the plain grid answers with the whole grid)" if rejects_inf
                    else f"arguments with `{t}`")
            rep.violation("R3.no-stricter-than-plain-grid", f.qual, t,
                          f"PeriodicGrid.get_localgrid rejects {what} even when there are no lattice vectors, where "
                          f"the class must behave as the plain grid", repo.rel(f.module, node),
                          [f"Grid.get_localgrid rejections: {sorted(base_rej)}"])
    return n


def configurations():
    """Every shape configuration the statement quantifies over: flat 1-D points (no lattice / one
    lattice vector) and (N, D) points for D = 1..3 with 0..D lattice vectors, wrapped or not."""
    out = [("flat 1-D points, no lattice vectors",
            {"points": ("arr", ("N",)), "weights": ("arr", ("N",)), "realvecs": ("none",), "wrap": ("bool", False)}),
           ("flat 1-D points, one lattice vector",
            {"points": ("arr", ("N",)), "weights": ("arr", ("N",)), "realvecs": ("arr", (1,)), "wrap": ("bool", False)}),
           ("flat 1-D points, one lattice vector, wrapped",
            {"points": ("arr", ("N",)), "weights": ("arr", ("N",)), "realvecs": ("arr", (1,)), "wrap": ("bool", True)})]
    for D in (1, 2, 3):
        for K in range(0, D + 1):
            rv = ("none",) if K == 0 else ("arr", (K, D))
            for wrap in (False, True):
                out.append((f"(N,{D}) points, {K} lattice vectors" + (", wrapped" if wrap else ""),
                            {"points": ("arr", ("N", D)), "weights": ("arr", ("N",)), "realvecs": rv,
                             "wrap": ("bool", wrap)}))
    return out


def rule_r5(rep, repo):
    """Shape abstract interpretation of the constructor and of get_localgrid for every admissible
    configuration (dimension x number of lattice vectors x wrap): no broadcasting / matmul / index /
    empty-reduction failure, the configuration is not rejected, and the lattice-related fields have
    one row (entry) per lattice vector."""
    from gridlint import e7
    init = repo.method("PeriodicGrid", "__init__")
    glg = repo.method("PeriodicGrid", "get_localgrid")
    n = 0
    for name, env in configurations():
        n += 1
        si = e7.CShapes(env, None)

        def resolver(recv, name):
            if recv in ("self", "cls", "PeriodicGrid"):
                h = repo.resolve_method("PeriodicGrid", name)
                return h.node if h is not None and isinstance(h.node, ast.FunctionDef) else None
            return None
        si.resolver = resolver
        si.run(strip_docstring(init.node.body))
        K = 0 if env["realvecs"][0] == "none" else (1 if len(env["realvecs"][1]) == 1 else env["realvecs"][1][0])
        cons = "periodicgrid.PeriodicGrid.__init__"
        if si.problems:
            kind, text, node = si.problems[0]
            rep.violation("R5.constructs-in-every-configuration", cons, f"{name}:{kind}",
                          f"for {name}: {text} -- the grid cannot be constructed", repo.rel("periodicgrid", node))
            continue
        if si.rejected is not None:
            rep.violation("R5.constructs-in-every-configuration", cons, f"{name}:rejected",
                          f"for {name} the constructor raises (`{norm(si.rejected)[:60]}`) although the configuration is admissible",
                          repo.rel("periodicgrid", si.rejected))
            continue
        bad = None
        for fld in ("_spacings", "_frac_intvls", "_recivecs"):
            v = si.fields.get(fld)
            if v is None or v[0] != "arr":
                continue
            rows = v[1][0] if v[1] else None
            flat1d = len(env["points"][1]) == 1
            if rows != K and not (flat1d and K == 1):
                bad = f"self.{fld} has shape {tuple(v[1])}, expected one row per lattice vector ({K})"
        if bad:
            rep.violation("R5.constructs-in-every-configuration", cons, f"{name}:rows",
                          f"for {name}: {bad}", init.loc())
            continue
        # the local-grid query on the constructed object
        q = e7.CShapes({"center": ("arr", tuple(env["points"][1][1:])) if len(env["points"][1]) > 1 else ("scalar",),
                        "radius": ("scalar",)}, None)
        q.fields = dict(si.fields)
        q.fields.setdefault("_points", env["points"])
        q.fields.setdefault("_weights", env["weights"])
        q.fields["_kdtree"] = ("unknown",)
        q.resolver = resolver
        body = strip_docstring(glg.node.body)
        # analyse up to the translation loop (the loop itself is geometric, not shape related)
        pre = []
        for st in body:
            if isinstance(st, ast.For):
                break
            pre.append(st)
        q.run(pre)
        probs = [p for p in q.problems]
        if probs:
            kind, text, node = probs[0]
            rep.violation("R5.constructs-in-every-configuration", "periodicgrid.PeriodicGrid.get_localgrid", f"{name}:{kind}",
                          f"for {name}: {text}", repo.rel("periodicgrid", node))
        else:
            rep.ok("R5.constructs-in-every-configuration", f"PeriodicGrid[{name}]", init.loc(),
                   "fields: " + ", ".join(f"{k}{tuple(v[1])}" for k, v in sorted(si.fields.items()) if v[0] == "arr"))
    rep.floor("shape configurations", n, 20)


def rule_r6(rep, repo):
    """Wrapping keeps derived quantities in step.  When the constructor re-binds `points` (the wrapped
    copy) inside a conditional block, every local or field that was computed from the *old* points
    before the block and is still used (or stored) afterwards must be updated in the same block;
    otherwise it describes positions the grid no longer has (e.g. a bounding volume of the unwrapped
    points).  Shape-only reads (`.ndim`, `.shape`, `len`) are not value dependencies."""
    from gridlint.props.c07 import local_defs
    init = repo.method("PeriodicGrid", "__init__")
    body = strip_docstring(init.node.body)
    X = init.params[1]
    SHAPE_ATTRS = ("ndim", "shape", "size", "dtype")

    def value_reads(e, names):
        """Names of `names` whose *values* the expression reads."""
        out = set()
        skip = set()
        for n in ast.walk(e):
            if isinstance(n, ast.Attribute) and n.attr in SHAPE_ATTRS and isinstance(n.value, ast.Name):
                skip.add(id(n.value))
            if isinstance(n, ast.Call) and norm(n.func) == "len" and n.args and isinstance(n.args[0], ast.Name):
                skip.add(id(n.args[0]))
        for n in ast.walk(e):
            if isinstance(n, ast.Name) and isinstance(n.ctx, ast.Load) and n.id in names and id(n) not in skip:
                out.add(n.id)
        return out
    # the conditional block(s) that re-bind X
    blocks = [(i, s) for i, s in enumerate(body) if isinstance(s, ast.If) and any(
        isinstance(a, ast.Assign) and any(isinstance(t, ast.Name) and t.id == X for t in a.targets) for a in ast.walk(s))]
    if not blocks:
        rep.note("PeriodicGrid.__init__ never re-binds its points: nothing to keep in step")
        return
    n = 0
    for i, blk in blocks:
        # locals / fields derived (transitively) from X before the block
        derived = {X}
        stale_candidates = {}
        for st in body[:i]:
            for a in ast.walk(st):
                if isinstance(a, (ast.Assign, ast.AugAssign)):
                    tgts = a.targets if isinstance(a, ast.Assign) else [a.target]
                    if value_reads(a.value, derived):
                        for t in tgts:
                            if isinstance(t, ast.Name):
                                derived.add(t.id)
                                stale_candidates[t.id] = a
                            elif isinstance(t, ast.Attribute) and norm(t.value) == "self":
                                stale_candidates["self." + t.attr] = a
        updated = set()
        for a in ast.walk(blk):
            if isinstance(a, (ast.Assign, ast.AugAssign)):
                tgts = a.targets if isinstance(a, ast.Assign) else [a.target]
                for t in tgts:
                    updated.add(norm(t))
        used_after = set()
        for st in body[i + 1:]:
            for n_ in ast.walk(st):
                if isinstance(n_, ast.Name) and isinstance(n_.ctx, ast.Load):
                    used_after.add(n_.id)
        for name, a in sorted(stale_candidates.items()):
            if name == X:
                continue
            live = name.startswith("self.") or name in used_after
            if not live:
                continue
            n += 1
            if name in updated:
                rep.ok("R6.wrap-keeps-derived-in-step", f"PeriodicGrid.__init__:{name}", repo.rel("periodicgrid", a),
                       "updated in the block that re-binds the points")
            else:
                rep.violation("R6.wrap-keeps-derived-in-step", "periodicgrid.PeriodicGrid.__init__", name,
                              f"`{norm(a)[:70]}` is computed from the points before they are wrapped and is not updated "
                              f"when `{X}` is re-bound under `if {norm(blk.test)[:40]}`: with wrapping it describes "
                              f"positions the grid no longer has", repo.rel("periodicgrid", a))
    rep.floor("quantities derived from the points before wrapping", n, 1)


def run(tier="quick", root="/repo", evidence_dir=None, quiet=False):
    rep = Report(PROP, tier, root, EXPLANATION, RULE, assumptions=[
        "norms, absolute values, even powers and square roots are non-negative; everything else is unknown sign",
    ])
    repo = get_repo(root)
    f = repo.method("PeriodicGrid", "get_localgrid")
    if f.cls != "PeriodicGrid":
        raise AnalysisError("anchor vanished: PeriodicGrid.get_localgrid override")
    ns = rep.attempt(rule_r1, rep, repo, f) or 0
    rep.attempt(rule_r2, rep, repo)
    rep.attempt(rule_r3, rep, repo, f)
    rep.attempt(rule_r5, rep, repo)
    rep.attempt(rule_r6, rep, repo)
    # R4: C10 rules on this override
    from gridlint.props import c10
    sub = Report("C10", tier, root, "", "")
    c10.rule_r4(sub, repo)
    classes = c10.concrete_grid_classes(repo)
    c10.rule_r3(sub, repo, classes)
    for i in sub.instances:
        if "PeriodicGrid" in i["construct"] or "periodicgrid" in i["construct"] or "Grid.points.setter" in i["construct"]:
            if i["verdict"] == "holds":
                rep.ok("R4." + i["rule"], i["construct"], i["where"], i["detail"])
    for v in sub.violations:
        if "periodicgrid" in v["construct"] or "Grid.points.setter" in v["construct"]:
            rep.violation("R4." + v["rule"], v["construct"], v["role"], v["what"], v["where"], v["witness"])
    rep.floor("stacking calls on accumulators", ns, 3)
    rep.extra["source_digest"] = repo.digest(["periodicgrid", "basegrid"])
    return rep.finish(evidence_dir=evidence_dir, quiet=quiet)
