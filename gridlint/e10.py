"""E10 -- symbolic array evaluator (serves C15: the algebra of the ODE coefficient transformation).

The functions of ode.py that rewrite a linear ODE in a new variable are short array programs whose
*entries* are polynomials in the coefficients a_k, the derivatives g', g'', g''' of the change of
variable and the components y_j of the state.  This module evaluates such a function from its
syntax tree over an abstract domain in which

  * an array is an array (NumPy object array, used here only as a container with NumPy's indexing
    and broadcasting rules) whose entries are polynomial / rational expressions (sympy, used as a
    polynomial-arithmetic library) in named indeterminates;
  * a callable supplied by the user (a coefficient function, the right-hand side, a method of the
    transformation object, the dense-output interpolant of SciPy) is an *uninterpreted function
    symbol*: applying it to a point p yields the indeterminate F(p);
  * the finitely many configurations the code distinguishes (order of the ODE 1..3, with / without a
    transformation, with / without derivatives in the output, callable / constant coefficients) are
    enumerated by the caller; every test the code makes must then evaluate to a Python bool, with the
    single exception of validation guards (an `if` whose body only raises or warns), which are
    skipped: the rules speak about accepted inputs.

Nothing of /repo is imported or executed; the statements are read from the parsed source and the
result is a table of expressions that the rules of props/c15.py compare -- as polynomial identities,
without any solver -- with the chain rule derived independently (`chain_rule`).  A construct outside
this fragment raises `Undecided` (exit 2), never a verdict.
"""
from __future__ import annotations

import ast

import numpy as np
import sympy as sp

from gridlint.core import norm, strip_docstring


np = np  # re-exported for the rule modules


class Undecided(Exception):
    pass


class Unbound(Undecided):
    """A name that has no value on the evaluated path (unknown to the evaluator, or never assigned on this path)."""

    def __init__(self, name):
        super().__init__(f"name `{name}`")
        self.name = name


class RuntimeFailure(Exception):
    """The evaluated code certainly raises at run time on this configuration (e.g. the truth value of an array)."""


class _Return(Exception):
    def __init__(self, value):
        self.value = value


class _Break(Exception):
    pass


class _Continue(Exception):
    pass


# ---------------------------------------------------------------------------------------- values
class Fn:
    """Uninterpreted function symbol; applied element-wise to arrays of points."""

    def __init__(self, name, nout=None):
        self.name = name
        self.nout = nout       # None: scalar valued; k: returns k rows (the dense output of SciPy)

    def __call__(self, arg):
        if self.nout is None:
            f = sp.Function(self.name)
            if isinstance(arg, np.ndarray):
                out = np.empty(arg.shape, dtype=object)
                for idx in np.ndindex(arg.shape):
                    out[idx] = f(arg[idx])
                return out
            return f(arg)
        pts = arg if isinstance(arg, np.ndarray) else np.array([arg], dtype=object)
        out = np.empty((self.nout,) + pts.shape, dtype=object)
        for j in range(self.nout):
            f = sp.Function(f"{self.name}{j}")
            for idx in np.ndindex(pts.shape):
                out[(j,) + idx] = f(pts[idx])
        return out

    def __repr__(self):
        return f"<fn {self.name}>"


class Obj:
    """Record with named attributes (the transformation object, SciPy's result object)."""

    def __init__(self, name, cls=None, **attrs):
        self.name = name
        self.cls = cls
        self.attrs = attrs
        # optional fall-back for attributes that are not stubbed: name -> value (e.g. a method of the
        # class, interpreted), or None
        self.resolver = None

    def __repr__(self):
        return f"<obj {self.name}>"


class Closure:
    """A nested function: free variables are read from the enclosing environment at call time (late
    binding, as in Python), default values are evaluated when the `def` is executed."""

    def __init__(self, node, env, interp, module_funcs):
        self.node, self.env, self.interp = node, env, interp
        params = [a.arg for a in node.args.args]
        self.defaults = {p_: interp.ev(d, env) for p_, d in
                         zip(params[len(params) - len(node.args.defaults):], node.args.defaults)}

    def __call__(self, *args, **kw):
        return self.interp.call_def(self.node, list(args), kw, self.env, self.defaults)


class Cls:
    """A class of the package used only in isinstance tests / as a constructor stub."""

    def __init__(self, name, ctor=None):
        self.name, self.ctor = name, ctor

    def __call__(self, *args, **kw):
        if self.ctor is None:
            raise Undecided(f"constructor of {self.name}")
        return self.ctor(*args, **kw)


class PyIter:
    """A Python iterator over already evaluated values (iter(...), islice state)."""

    def __init__(self, values):
        self.it = iter(list(values))


class Unknown:
    """A value the rules do not need (e.g. a tolerance); any arithmetic use is undecided."""

    def __init__(self, what):
        self.what = what


def _exact(v):
    """Floats inside arrays are kept as exact rationals (2.0 -> 2, 0.5 -> 1/2)."""
    if isinstance(v, (float, np.floating)) and not isinstance(v, bool):
        return sp.nsimplify(float(v))
    return v


def arr(values):
    a = np.empty(len(values), dtype=object)
    for i, v in enumerate(values):
        a[i] = _exact(v)
    return a


def _obj_array(v):
    """np.array(...) of nested lists / arrays of expressions."""
    if isinstance(v, np.ndarray):
        return v.copy()
    if isinstance(v, (list, tuple)):
        items = [_obj_array(x) if isinstance(x, (list, tuple, np.ndarray)) else x for x in v]
        if items and all(isinstance(x, np.ndarray) for x in items):
            shp = {x.shape for x in items}
            if len(shp) != 1:
                raise Undecided("ragged array")
            out = np.empty((len(items),) + items[0].shape, dtype=object)
            for i, x in enumerate(items):
                out[i] = x
            return out
        out = np.empty(len(items), dtype=object)
        for i, x in enumerate(items):
            out[i] = _exact(x)
        return out
    out = np.empty((), dtype=object)
    out[()] = _exact(v)
    return out


# ------------------------------------------------------------------------------------- chain rule
def chain_rule(kmax, y, g):
    """[T_0 .. T_kmax]: d^k/dx^k of y(g(x)) as a polynomial in y_j = d^j y/dr^j (at r = g(x)) and
    g_i = d^i g/dx^i, derived from the two rules D y_j = y_{j+1} g_1 and D g_i = g_{i+1} only.
    `y` and `g` are lists of indeterminates (y[0..kmax], g[1..kmax+1]; g[0] unused)."""
    out = [y[0]]
    for _k in range(kmax):
        t = out[-1]
        d = sp.Integer(0)
        for j in range(len(y) - 1):
            d += sp.diff(t, y[j]) * y[j + 1] * g[1]
        for i in range(1, len(g) - 1):
            d += sp.diff(t, g[i]) * g[i + 1]
        out.append(sp.expand(d))
    return out


def bell_incomplete(n, k, seq):
    """Partial Bell polynomial B_{n,k}(seq[0], seq[1], ...) by its recurrence
    B_{n,k} = sum_i C(n-1, i-1) x_i B_{n-i,k-1}  (independent of the library's implementation)."""
    n, k = int(n), int(k)
    if n == 0 and k == 0:
        return sp.Integer(1)
    if n == 0 or k == 0:
        return sp.Integer(0)
    tot = sp.Integer(0)
    for i in range(1, n - k + 2):
        if i - 1 >= len(seq):
            break
        tot += sp.binomial(n - 1, i - 1) * seq[i - 1] * bell_incomplete(n - i, k - 1, seq)
    return sp.expand(tot)


# ----------------------------------------------------------------------------------- interpreter
class Interp:
    #: literal cut-offs below this are "smaller than every generic positive value" (see `generic`)
    SMALL = 1e-3

    def __init__(self, module_funcs, externals=None, number_like=(), generic=(), module_globals=None):
        """module_funcs: name -> ast.FunctionDef of the module (helpers are interpreted on call);
        externals: name -> Python callable standing for a library routine (solve_ivp, ...);
        number_like: indeterminates that `isinstance(v, Number)` accepts."""
        self.module_funcs = module_funcs
        self.externals = dict(externals or {})
        self.number_like = set(number_like)
        # indeterminates standing for a *generic* positive quantity (a radius away from the origin):
        # non-zero and larger than every literal cut-off below SMALL
        self.generic = set(generic)
        # indeterminates known to be strictly increasing in this configuration (a finite set of
        # orderings is enumerated by the caller): decides min / max / comparisons among them
        self.chain = []
        # values of uninterpreted user functions count as non-zero in truth tests (the exactly-zero case must then be
        # explored by the caller with a literal zero)
        self.generic_functions = False
        # module-level assignments `name = <expression>` of the analysed module, evaluated on demand
        self.module_globals = dict(module_globals or {})
        self._glob_cache = {}
        self._yields = []
        self.depth = 0
        self.trace = []

    # -- calls
    def call_def(self, node, args, kw, outer_env, bound_defaults=None):
        params = [a.arg for a in node.args.args]
        defaults = node.args.defaults
        env = dict(outer_env)
        for p_ in params:
            env.pop(p_, None)
        if bound_defaults is not None:
            env.update(bound_defaults)
        else:
            for p_, d in zip(params[len(params) - len(defaults):], defaults):
                env[p_] = self.ev(d, outer_env)
        if len(args) > len(params):
            raise Undecided(f"too many arguments for {node.name}")
        for p_, a in zip(params, args):
            env[p_] = a
        params_kwonly = [a.arg for a in node.args.kwonlyargs]
        for a, d in zip(node.args.kwonlyargs, node.args.kw_defaults):
            if d is not None:
                env[a.arg] = self.ev(d, outer_env)
        extra = {}
        for k_, v in kw.items():
            if k_ in params or k_ in params_kwonly:
                env[k_] = v
            elif node.args.kwarg is not None:
                extra[k_] = v
            else:
                raise Undecided(f"unknown keyword {k_} for {node.name}")
        if node.args.kwarg is not None:
            env[node.args.kwarg.arg] = extra
        params = params + params_kwonly
        missing = [p_ for p_ in params if p_ not in env]
        if missing:
            raise Undecided(f"{node.name}: no value for parameter(s) {missing}")
        self.depth += 1
        if self.depth > 12:
            raise Undecided("call depth")
        gen = _is_generator(node)
        if gen:
            # a generator is evaluated eagerly: the list of the values it yields (the code in this
            # fragment has no effects whose interleaving with the consumer could matter)
            self._yields.append([])
        try:
            self.block(strip_docstring(node.body), env)
        except _Return as r:
            if not gen:
                return r.value
        finally:
            self.depth -= 1
            if gen:
                produced = self._yields.pop()
        return produced if gen else None

    def _record_class(self, node):
        """A module-level `class X(NamedTuple)` / dataclass with annotated fields only: a record constructor."""
        import collections
        bases = {norm(b).split(".")[-1] for b in node.bases}
        decos = {norm(d).split("(")[0].split(".")[-1] for d in node.decorator_list}
        fields, defaults = [], {}
        for st in node.body:
            if isinstance(st, ast.AnnAssign) and isinstance(st.target, ast.Name):
                fields.append(st.target.id)
                if st.value is not None:
                    defaults[st.target.id] = self.ev(st.value, {})
            elif isinstance(st, ast.Expr) and isinstance(st.value, ast.Constant):
                continue
            else:
                raise Undecided(f"class {node.name} has members other than annotated fields")
        if not fields or not (bases & {"NamedTuple"} or "dataclass" in decos):
            raise Undecided(f"class {node.name} is not a plain record")
        nt = collections.namedtuple(node.name, fields, defaults=[defaults[f_] for f_ in fields if f_ in defaults] or None)
        return nt

    def apply(self, f, args, kw):
        """Call an evaluated callee (closure, stub, module function, class) with evaluated arguments."""
        if isinstance(f, (Closure, Cls)):
            return f(*args, **kw)
        if isinstance(f, Fn):
            return f(*args)
        if isinstance(f, tuple) and f and f[0] == "modfunc":
            return self.call_def(self.module_funcs[f[1]], list(args), kw, {})
        if callable(f):
            return f(*args, **kw)
        raise Undecided("call of a value that is not a function")

    # -- statements
    def block(self, stmts, env):
        for s in stmts:
            self.stmt(s, env)

    def _only_rejects(self, body):
        for s in body:
            if isinstance(s, ast.Raise):
                continue
            if isinstance(s, ast.Expr) and isinstance(s.value, ast.Call) and norm(s.value.func) in ("warnings.warn", "warn", "print"):
                continue
            return False
        return True

    def stmt(self, s, env):
        if isinstance(s, ast.Expr):
            if isinstance(s.value, ast.Constant):
                return
            if isinstance(s.value, ast.Call) and norm(s.value.func) in ("warnings.warn", "warn", "print"):
                return
            self.ev(s.value, env)
            return
        if isinstance(s, ast.Assign):
            v = self.ev(s.value, env)
            for t in s.targets:
                self.assign(t, v, env)
            return
        if isinstance(s, ast.AnnAssign) and s.value is not None:
            self.assign(s.target, self.ev(s.value, env), env)
            return
        if isinstance(s, ast.AugAssign):
            cur = self.ev(_load(s.target), env)
            v = self.binop(s.op, cur, self.ev(s.value, env))
            if isinstance(s.target, ast.Name) and isinstance(cur, np.ndarray) and isinstance(v, np.ndarray) and v.shape == cur.shape \
                    and cur.dtype == object:
                cur[...] = v        # an augmented assignment to an array updates it in place (aliases see the change)
                return
            self.assign(s.target, v, env)
            return
        if isinstance(s, ast.If):
            if self._only_rejects(s.body) and not s.orelse:
                try:
                    t = self.truth(self.ev(s.test, env))
                except Undecided:
                    return      # a validation guard on symbolic data: accepted inputs pass it
                if t and any(isinstance(x, ast.Raise) for x in s.body):
                    raise Undecided(f"the configuration is rejected by `{norm(s.test)[:60]}`")
                return      # a warning only: nothing to evaluate
            t = self.truth(self.ev(s.test, env))
            self.block(s.body if t else s.orelse, env)
            return
        if isinstance(s, ast.For):
            if s.orelse:
                raise Undecided("for/else")
            it = self.ev(s.iter, env)
            if isinstance(it, np.ndarray):
                it = list(it)
            if isinstance(it, PyIter):
                it = list(it.it)
            if not isinstance(it, (list, tuple, range)):
                raise Undecided(f"loop over `{norm(s.iter)[:50]}`")
            for x in it:
                self.assign(s.target, x, env)
                try:
                    self.block(s.body, env)
                except _Break:
                    break
                except _Continue:
                    continue
            return
        if isinstance(s, ast.While):
            if s.orelse:
                raise Undecided("while/else")
            turns = 0
            while self.truth(self.ev(s.test, env)):
                turns += 1
                if turns > 10000:
                    raise Undecided("a loop that does not terminate on the symbolic configuration")
                try:
                    self.block(s.body, env)
                except _Break:
                    break
                except _Continue:
                    continue
            return
        if isinstance(s, ast.Break):
            raise _Break()
        if isinstance(s, ast.Continue):
            raise _Continue()
        if isinstance(s, ast.Return):
            raise _Return(self.ev(s.value, env) if s.value is not None else None)
        if isinstance(s, ast.FunctionDef):
            env[s.name] = Closure(s, env, self, self.module_funcs)
            return
        if isinstance(s, ast.Raise):
            raise Undecided("an unconditional raise is reached")
        if isinstance(s, ast.Pass):
            return
        if isinstance(s, ast.AnnAssign) and s.value is None:
            return
        if isinstance(s, ast.Assert):
            return          # accepted inputs pass assertions
        if isinstance(s, (ast.Import, ast.ImportFrom, ast.Global, ast.Nonlocal)):
            return
        if isinstance(s, ast.Delete):
            for t in s.targets:
                if isinstance(t, ast.Name):
                    env.pop(t.id, None)
                else:
                    raise Undecided(f"del `{norm(t)[:40]}`")
            return
        if isinstance(s, ast.Try):
            # exceptions mean rejected inputs: the normal path is the body, the else-branch and the finaliser
            self.block(s.body, env)
            self.block(s.orelse, env)
            self.block(s.finalbody, env)
            return
        if isinstance(s, ast.With):
            if all(isinstance(i.context_expr, ast.Call) and norm(i.context_expr.func) in ("np.errstate", "warnings.catch_warnings")
                   and i.optional_vars is None for i in s.items):
                self.block([x for x in s.body if not (isinstance(x, ast.Expr) and isinstance(x.value, ast.Call)
                                                       and norm(x.value.func).startswith("warnings."))], env)
                return
        raise Undecided(f"statement `{norm(s)[:60]}`")

    def assign(self, t, v, env):
        if isinstance(t, ast.Name):
            env[t.id] = v
            return
        if isinstance(t, (ast.Tuple, ast.List)):
            vs = list(v.it) if isinstance(v, PyIter) else list(v) if isinstance(v, (list, tuple, np.ndarray)) else None
            stars = [i for i, a in enumerate(t.elts) if isinstance(a, ast.Starred)]
            if vs is not None and len(stars) == 1 and len(vs) >= len(t.elts) - 1:
                i = stars[0]
                tail = len(t.elts) - i - 1
                for a, b in zip(t.elts[:i], vs[:i]):
                    self.assign(a, b, env)
                self.assign(t.elts[i].value, vs[i:len(vs) - tail], env)
                for a, b in zip(t.elts[i + 1:], vs[len(vs) - tail:]):
                    self.assign(a, b, env)
                return
            if vs is None or len(vs) != len(t.elts):
                raise Undecided("unpacking")
            for a, b in zip(t.elts, vs):
                self.assign(a, b, env)
            return
        if isinstance(t, ast.Subscript):
            base = self.ev(t.value, env)
            if isinstance(base, dict):
                base[self.ev(t.slice, env)] = v
                return
            idx = self.index(t.slice, env)
            if isinstance(base, np.ndarray):
                base[idx] = v
                return
            if isinstance(base, list):
                base[idx] = v
                return
        if isinstance(t, ast.Attribute):
            base = self.ev(t.value, env)
            if isinstance(base, Obj):
                base.attrs[t.attr] = v
                return
        raise Undecided(f"store to `{norm(t)[:50]}`")

    # -- expressions
    def truth(self, v):
        if isinstance(v, (bool, int, np.bool_)):
            return bool(v)
        if v is None:
            return False
        if isinstance(v, (list, tuple, dict, str, range)):
            return len(v) > 0
        if isinstance(v, np.ndarray):
            if v.size > 1:
                raise RuntimeFailure("the truth value of an array with more than one element is ambiguous (ValueError)")
            if v.size == 1:
                return self.truth(v.flatten()[0])
            return False
        if isinstance(v, (Obj, Fn, Closure)):
            return True
        if isinstance(v, (sp.Integer, sp.Rational)):
            return bool(v != 0)
        if isinstance(v, sp.Basic) and v.is_zero is not None and v is not sp.nan:
            return not v.is_zero
        if isinstance(v, sp.logic.boolalg.BooleanAtom):
            return bool(v)
        raise Undecided("a test on symbolic data")

    def index(self, sl, env):
        if isinstance(sl, ast.Tuple):
            return tuple(self.index(e, env) for e in sl.elts)
        if isinstance(sl, ast.Slice):
            f = lambda e: None if e is None else self._int(self.ev(e, env))
            return slice(f(sl.lower), f(sl.upper), f(sl.step))
        v = self.ev(sl, env)
        if isinstance(v, np.ndarray) and v.dtype == bool:
            return v
        if isinstance(v, (str, slice)) or v is Ellipsis or v is None:
            return v
        if isinstance(v, tuple) and v == ("np", "newaxis"):
            return None
        if isinstance(v, np.ndarray) and v.dtype.kind in "iu":
            return v
        if isinstance(v, np.ndarray) and v.dtype == object and v.size and all(
                isinstance(x, (int, np.integer, sp.Integer)) and not isinstance(x, bool) for x in v.flatten()):
            return np.array([int(x) for x in v.flatten()], dtype=int).reshape(v.shape)
        return self._int(v)

    def _int(self, v):
        if isinstance(v, (int, np.integer)) and not isinstance(v, bool):
            return int(v)
        if isinstance(v, sp.Integer):
            return int(v)
        raise Undecided("a symbolic index")

    def binop(self, op, a, b):
        for v in (a, b):
            if isinstance(v, Unknown):
                raise Undecided(f"arithmetic on {v.what}")
            if isinstance(v, (Fn, Obj, Closure)) or v is None:
                raise Undecided("arithmetic on a non-number")
        if isinstance(a, str) and isinstance(b, str) and isinstance(op, ast.Add):
            return a + b
        if not isinstance(op, (ast.BitOr, ast.BitAnd, ast.BitXor)):
            if isinstance(a, (bool, np.bool_)):
                a = int(a)
            if isinstance(b, (bool, np.bool_)):
                b = int(b)
        if isinstance(a, (list, tuple)) or isinstance(b, (list, tuple)):
            if isinstance(op, ast.Add) and isinstance(a, (list, tuple)) and isinstance(b, type(a)):
                return a + b
            if isinstance(op, ast.Mult) and isinstance(a, list) and isinstance(b, (int, sp.Integer)):
                return a * int(b)
            raise Undecided("list arithmetic")
        if all(isinstance(v, (int, np.integer)) and not isinstance(v, bool) for v in (a, b)):
            a, b = int(a), int(b)
            if isinstance(op, ast.Add):
                return a + b
            if isinstance(op, ast.Sub):
                return a - b
            if isinstance(op, ast.Mult):
                return a * b
            if isinstance(op, ast.Pow) and b >= 0:
                return a ** b
        a = sp.Integer(a) if isinstance(a, int) and not isinstance(a, bool) else a
        if isinstance(a, float):
            a = sp.nsimplify(a)
        if isinstance(b, float):
            b = sp.nsimplify(b)
        if isinstance(op, ast.Add):
            return a + b
        if isinstance(op, ast.Sub):
            return a - b
        if isinstance(op, ast.Mult):
            return a * b
        if isinstance(op, ast.Div):
            return a / b
        if isinstance(op, ast.Pow):
            return a ** b
        if isinstance(op, ast.FloorDiv) and all(isinstance(x, (int, sp.Integer)) for x in (a, b)):
            return int(a) // int(b)
        if isinstance(op, ast.Mod) and all(isinstance(x, (int, sp.Integer)) for x in (a, b)):
            return int(a) % int(b)
        if isinstance(op, ast.MatMult) and isinstance(a, np.ndarray) and isinstance(b, np.ndarray):
            return a.dot(b)
        if isinstance(op, (ast.FloorDiv, ast.Mod)) and (isinstance(a, np.ndarray) or isinstance(b, np.ndarray)):
            def as_int(v):
                if isinstance(v, np.ndarray):
                    flat = [x for x in v.flatten()]
                    if not all(isinstance(x, (int, np.integer, sp.Integer)) and not isinstance(x, bool) for x in flat):
                        raise Undecided("floor division of symbolic data")
                    return np.array([int(x) for x in flat], dtype=int).reshape(v.shape)
                if isinstance(v, (int, np.integer, sp.Integer)):
                    return int(v)
                raise Undecided("floor division of symbolic data")
            ai, bi = as_int(a), as_int(b)
            return ai // bi if isinstance(op, ast.FloorDiv) else ai % bi
        if isinstance(op, (ast.BitOr, ast.BitAnd, ast.BitXor)):
            def as_bool(v):
                if isinstance(v, np.ndarray) and v.dtype == bool:
                    return v
                if isinstance(v, (bool, np.bool_)):
                    return bool(v)
                raise Undecided("bitwise operator on non-boolean data")
            ab, bb = as_bool(a), as_bool(b)
            return ab | bb if isinstance(op, ast.BitOr) else ab & bb if isinstance(op, ast.BitAnd) else ab ^ bb
        raise Undecided(f"operator {type(op).__name__}")

    def ev(self, e, env):
        if isinstance(e, ast.Constant):
            return e.value
        if isinstance(e, ast.Name):
            if e.id in env:
                return env[e.id]
            if e.id in self.externals:
                return self.externals[e.id]
            if e.id in self.module_funcs:
                return ("modfunc", e.id)
            if e.id in self._glob_cache:
                return self._glob_cache[e.id]
            if e.id in self.module_globals:
                g = self.module_globals[e.id]
                if isinstance(g, ast.ClassDef):
                    v = self._record_class(g)
                else:
                    v = self.ev(g, {})
                self._glob_cache[e.id] = v
                return v
            if e.id in ("islice", "chain", "pairwise"):     # `from itertools import ...`
                return ("itertools", e.id)
            if e.id in ("float", "int", "len", "range", "enumerate", "list", "tuple", "min", "max", "isinstance",
                        "callable", "zip", "Number", "Real", "Integral", "bool", "abs", "reversed", "sum", "dict", "type", "slice", "sorted", "str", "iter", "all", "any", "partial"):
                return ("builtin", e.id)
            raise Unbound(e.id)
        if isinstance(e, ast.UnaryOp):
            v = self.ev(e.operand, env)
            if isinstance(e.op, ast.Not):
                return not self.truth(v)
            if isinstance(e.op, ast.USub):
                return self.binop(ast.Mult(), -1, v)
            if isinstance(e.op, ast.UAdd):
                return v
            if isinstance(e.op, ast.Invert):
                if isinstance(v, np.ndarray) and v.dtype == bool:
                    return ~v
                raise Undecided("~ of non-boolean data")
        if isinstance(e, ast.BinOp):
            return self.binop(e.op, self.ev(e.left, env), self.ev(e.right, env))
        if isinstance(e, ast.BoolOp):
            # Python semantics: the value of the deciding operand, short-circuit evaluation
            v = None
            for x in e.values:
                v = self.ev(x, env)
                t = self.truth(v)
                if isinstance(e.op, ast.And) and not t:
                    return v
                if isinstance(e.op, ast.Or) and t:
                    return v
            return v
        if isinstance(e, ast.Compare):
            return self.compare(e, env)
        if isinstance(e, ast.IfExp):
            return self.ev(e.body if self.truth(self.ev(e.test, env)) else e.orelse, env)
        if isinstance(e, (ast.List, ast.Tuple)):
            out = []
            for x in e.elts:
                if isinstance(x, ast.Starred):
                    v = self.ev(x.value, env)
                    out.extend(list(v))
                else:
                    out.append(self.ev(x, env))
            return out if isinstance(e, ast.List) else tuple(out)
        if isinstance(e, (ast.ListComp, ast.GeneratorExp)):
            return self.comp(e, env)
        if isinstance(e, ast.DictComp):
            out = {}

            def rec(gens, env2):
                if not gens:
                    out[self.ev(e.key, env2)] = self.ev(e.value, env2)
                    return
                g = gens[0]
                it = self.ev(g.iter, env2)
                it = list(it) if isinstance(it, np.ndarray) else it
                if not isinstance(it, (list, tuple, range)):
                    raise Undecided(f"comprehension over `{norm(g.iter)[:40]}`")
                for x in it:
                    env3 = dict(env2)
                    self.assign(g.target, x, env3)
                    if all(self.truth(self.ev(c, env3)) for c in g.ifs):
                        rec(gens[1:], env3)
            rec(list(e.generators), env)
            return out
        if isinstance(e, ast.Dict):
            if any(k is None for k in e.keys):
                raise Undecided("dict unpacking in a display")
            return {self.ev(k, env): self.ev(v, env) for k, v in zip(e.keys, e.values)}
        if isinstance(e, ast.Subscript):
            base = self.ev(e.value, env)
            if isinstance(base, dict):
                key = self.ev(e.slice, env)
                if key not in base:
                    raise Undecided(f"key `{key}` of `{norm(e.value)[:30]}`")
                return base[key]
            idx = self.index(e.slice, env)
            if isinstance(base, (np.ndarray, list, tuple, range)):
                try:
                    return base[idx]
                except (IndexError, TypeError) as ex:
                    raise Undecided(f"`{norm(e)[:50]}`: {ex}") from ex
            if isinstance(base, dict):
                return base[idx]
            if isinstance(base, Obj) and "__getitem__" in base.attrs:
                return base.attrs["__getitem__"](idx)
            raise Undecided(f"subscript of `{norm(e.value)[:40]}`")
        if isinstance(e, ast.Attribute):
            return self.attribute(e, env)
        if isinstance(e, ast.Call):
            return self.call(e, env)
        if isinstance(e, ast.JoinedStr):
            return "<str>"
        if isinstance(e, ast.Yield):
            if not self._yields:
                raise Undecided("yield outside a generator")
            self._yields[-1].append(self.ev(e.value, env) if e.value is not None else None)
            return None
        if isinstance(e, ast.YieldFrom):
            if not self._yields:
                raise Undecided("yield outside a generator")
            src = self.ev(e.value, env)
            self._yields[-1].extend(list(src.it) if isinstance(src, PyIter) else list(src))
            return None
        if isinstance(e, ast.Lambda):
            fd = ast.FunctionDef(name="<lambda>", args=e.args, body=[ast.Return(value=e.body)], decorator_list=[])
            return Closure(fd, env, self, self.module_funcs)
        raise Undecided(f"expression `{norm(e)[:60]}`")

    def compare(self, e, env):
        left = self.ev(e.left, env)
        for op, c in zip(e.ops, e.comparators):
            right = self.ev(c, env)
            if isinstance(op, (ast.Is, ast.IsNot)):
                r = (left is right) or (left is None and right is None)
                r = r if isinstance(op, ast.Is) else not r
            elif isinstance(op, (ast.In, ast.NotIn)):
                if not isinstance(right, (list, tuple, dict, range)) or isinstance(left, (sp.Basic, np.ndarray)) and not isinstance(left, sp.Integer):
                    raise Undecided("membership test on symbolic data")
                r = left in right
                r = r if isinstance(op, ast.In) else not r
            elif isinstance(left, (tuple, list)) and isinstance(right, (tuple, list)) and isinstance(op, (ast.Eq, ast.NotEq)) and \
                    all(isinstance(x, (int, str, bool, type(None))) for x in list(left) + list(right)):
                r = (list(left) == list(right)) if isinstance(op, ast.Eq) else (list(left) != list(right))
            elif isinstance(left, str) and isinstance(right, str) and isinstance(op, (ast.Eq, ast.NotEq)):
                r = (left == right) if isinstance(op, ast.Eq) else (left != right)
            elif isinstance(left, np.ndarray) or isinstance(right, np.ndarray):
                if len(e.ops) != 1:
                    raise Undecided("chained comparison of arrays")
                la = left if isinstance(left, np.ndarray) else None
                ra = right if isinstance(right, np.ndarray) else None
                if la is not None and ra is not None:
                    la, ra = np.broadcast_arrays(la, ra)
                shape = (la if la is not None else ra).shape
                out = np.empty(shape, dtype=bool)
                for idx in np.ndindex(shape):
                    out[idx] = self._cmp(op, la[idx] if la is not None else left, ra[idx] if ra is not None else right)
                return out
            else:
                r = self._cmp(op, left, right)
            if not r:
                return False
            left = right
        return True

    def _cmp(self, op, left, right):
        def num(v):
            if isinstance(v, bool):
                return None
            if isinstance(v, (int, float, np.integer, np.floating)):
                return v
            if isinstance(v, (sp.Integer, sp.Rational, sp.Float)):
                return float(v) if not isinstance(v, sp.Integer) else int(v)
            return None
        def inf_(v):
            return v in (sp.oo, -sp.oo) or (isinstance(v, float) and v in (float("inf"), float("-inf")))
        if isinstance(op, (ast.Eq, ast.NotEq)) and (inf_(left) or inf_(right)):
            l_, r_ = (sp.oo if left == float("inf") else -sp.oo if left == float("-inf") else left) if isinstance(left, float) else left, \
                     (sp.oo if right == float("inf") else -sp.oo if right == float("-inf") else right) if isinstance(right, float) else right
            if inf_(l_) and inf_(r_):
                same = l_ == r_
            else:
                other = r_ if inf_(l_) else l_
                if isinstance(other, (int, float, np.integer, np.floating, sp.Integer, sp.Rational, sp.Float)) or \
                        (isinstance(other, sp.Basic) and other.is_finite):
                    same = False
                else:
                    raise Undecided("comparison of a symbolic value with infinity")
            return same if isinstance(op, ast.Eq) else not same
        a, b = num(left), num(right)
        if a is None and b is None and left in self.chain and right in self.chain:
            a, b = self.chain.index(left), self.chain.index(right)
        if a is None or b is None:
            # a generic positive quantity against a literal
            flip = {ast.Lt: ast.Gt, ast.Gt: ast.Lt, ast.LtE: ast.GtE, ast.GtE: ast.LtE, ast.Eq: ast.Eq, ast.NotEq: ast.NotEq}
            if a is not None and b is None:
                return self._cmp(flip[type(op)](), right, left)
            if b is not None and a is None and b == 0 and isinstance(left, sp.Basic) and left.is_positive and \
                    isinstance(op, (ast.Eq, ast.NotEq)):
                return isinstance(op, ast.NotEq)
            if b is not None and a is None:
                g = left
                if isinstance(g, sp.Abs) and g.args[0] in self.generic:
                    g = g.args[0]
                if g in self.generic and 0 <= b < self.SMALL:
                    return {ast.Eq: False, ast.NotEq: True, ast.Lt: False, ast.LtE: False, ast.Gt: True, ast.GtE: True}[type(op)]
                if isinstance(left, sp.Abs) and 0 <= b < self.SMALL and left.free_symbols and left.free_symbols <= self.generic \
                        and isinstance(op, (ast.Lt, ast.LtE)):
                    # |analytic expression of generic quantities| below a tiny literal: a thin set, not a generic point
                    return False
            raise Undecided("a comparison of symbolic data")
        return {ast.Eq: a == b, ast.NotEq: a != b, ast.Lt: a < b, ast.LtE: a <= b,
                ast.Gt: a > b, ast.GtE: a >= b}[type(op)]

    def comp(self, e, env):
        out = []

        def rec(gens, env2):
            if not gens:
                out.append(self.ev(e.elt, env2))
                return
            g = gens[0]
            it = self.ev(g.iter, env2)
            if isinstance(it, np.ndarray):
                it = list(it)
            if isinstance(it, PyIter):
                it = list(it.it)
            if not isinstance(it, (list, tuple, range)):
                raise Undecided(f"comprehension over `{norm(g.iter)[:40]}`")
            for x in it:
                env3 = dict(env2)
                self.assign(g.target, x, env3)
                if all(self.truth(self.ev(c, env3)) for c in g.ifs):
                    rec(gens[1:], env3)
        rec(list(e.generators), env)
        return out

    def attribute(self, e, env):
        if isinstance(e.value, ast.Name) and e.value.id == "itertools" and "itertools" not in env:
            return ("itertools", e.attr)
        base = self.ev(e.value, env) if not (isinstance(e.value, ast.Name) and e.value.id in ("np", "numpy", "warnings")) else None
        if e.attr == "from_iterable" and isinstance(base, tuple) and len(base) == 2 and \
                all(isinstance(b_, str) for b_ in base) and base == ("itertools", "chain"):
            return ("itertools", "chain.from_iterable")
        if isinstance(e.value, ast.Name) and e.value.id == "itertools" and "itertools" not in env:
            return ("itertools", e.attr)
        if base is None and isinstance(e.value, ast.Name):
            if e.attr == "pi":
                return sp.pi
            if e.attr in ("inf", "Inf", "infty", "PINF"):
                return sp.oo
            if e.attr in ("NINF",):
                return -sp.oo
            if e.attr in ("nan", "NaN", "NAN"):
                return sp.nan
            return ("np", e.attr)
        if isinstance(base, tuple) and len(base) == 2 and base[0] == "np" and base[1] in ("linalg", "random", "ma"):
            return ("np", f"{base[1]}.{e.attr}")
        if isinstance(base, Obj):
            if e.attr in base.attrs:
                return base.attrs[e.attr]
            if base.resolver is not None:
                found, v = base.resolver(e.attr)
                if found:
                    return v
            raise Undecided(f"attribute {base.name}.{e.attr}")
        if isinstance(base, np.ndarray):
            if e.attr == "size":
                return int(base.size)
            if e.attr == "shape":
                return tuple(base.shape)
            if e.attr == "ndim":
                return int(base.ndim)
            if e.attr == "dtype":
                return ("dtype", "array")
            if e.attr == "T":
                return base.T
            if e.attr in ("dot", "copy", "flatten", "ravel", "astype", "sum", "reshape", "tolist", "transpose", "clip", "prod"):
                return ("method", base, e.attr)
        if isinstance(base, tuple) and hasattr(base, "_fields") and e.attr in base._fields:
            return getattr(base, e.attr)
        if isinstance(base, sp.Basic) and e.attr in ("evalf", "subs", "expand"):
            return ("method", base, "sympy." + e.attr)
        if isinstance(base, list) and e.attr in ("append", "extend", "insert", "copy", "index", "count"):
            return ("method", base, e.attr)
        if isinstance(base, dict) and e.attr in ("setdefault", "get", "items", "keys", "values", "pop", "update", "copy"):
            return ("method", base, e.attr)
        raise Undecided(f"attribute `{norm(e)[:50]}`")

    def call(self, e, env):
        f = self.ev(e.func, env)
        args = []
        for a in e.args:
            if isinstance(a, ast.Starred):
                args.extend(list(self.ev(a.value, env)))
            else:
                args.append(self.ev(a, env))
        kw = {}
        for k in e.keywords:
            if k.arg is not None:
                kw[k.arg] = self.ev(k.value, env)
            else:
                d = self.ev(k.value, env)
                if not isinstance(d, dict):
                    raise Undecided("** of a non-dict")
                kw.update(d)
        if isinstance(f, (Fn, Closure, Cls)):
            return f(*args, **kw) if not isinstance(f, Fn) else f(*args)
        if isinstance(f, Obj) and "__call__" in f.attrs:
            return f.attrs["__call__"](*args, **kw)
        if callable(f) and not isinstance(f, tuple):
            return f(*args, **kw)
        if isinstance(f, tuple) and f[0] == "modfunc":
            return self.call_def(self.module_funcs[f[1]], args, kw, {})
        if isinstance(f, tuple) and f[0] == "method":
            _, base, name = f
            if set(kw) - {"axis", "min", "max", "dtype", "subs", "copy", "order"}:
                raise Undecided(f".{name} with the keyword(s) {sorted(kw)}")
            if name in ("sympy.evalf", "sympy.subs"):
                mapping = kw.get("subs", args[0] if args else {})
                if not isinstance(mapping, dict):
                    raise Undecided("substitution that is not a dictionary")
                return base.subs({(sp.Symbol(k) if isinstance(k, str) else k): v for k, v in mapping.items()})
            if name == "sympy.expand":
                return sp.expand(base)
            if name == "dot":
                other = args[0]
                if not isinstance(other, np.ndarray):
                    other = _obj_array(other)
                if base.size == 0 or other.size == 0:
                    return np.empty(base.shape[:-1] + other.shape[1:], dtype=object)
                return base.dot(other)
            if name in ("copy", "astype"):
                return base.copy()
            if name == "sum":
                axis = kw.get("axis", args[0] if args else None)
                return base.sum(axis=None if axis is None else self._int(axis)) if base.size else sp.Integer(0)
            if name == "reshape":
                shp = args[0] if len(args) == 1 and isinstance(args[0], (tuple, list)) else args
                return base.reshape(tuple(self._int(x) for x in shp))
            if name == "tolist":
                return base.tolist()
            if name == "transpose":
                axes = args[0] if len(args) == 1 and isinstance(args[0], (list, tuple)) else args
                return base.transpose([self._int(x) for x in axes]) if axes else base.T
            if name == "prod":
                axis = kw.get("axis", args[0] if args else None)
                return base.astype(object).prod(axis=None if axis is None else self._int(axis))
            if name == "clip":
                lo = kw.get("min", args[0] if args else None)
                hi = kw.get("max", args[1] if len(args) > 1 else None)
                if base.dtype.kind in "iu" or all(isinstance(x, (int, np.integer)) for x in base.flatten()):
                    return np.clip(np.array([int(x) for x in base.flatten()], dtype=int).reshape(base.shape),
                                   None if lo is None else self._int(lo), None if hi is None else self._int(hi))
                raise Undecided("clip of symbolic data")
            if name in ("flatten", "ravel"):
                return base.flatten()
            if name == "append":
                base.append(args[0])
                return None
            if isinstance(base, list) and name == "extend":
                base.extend(list(args[0]))
                return None
            if isinstance(base, list) and name == "insert":
                base.insert(self._int(args[0]), args[1])
                return None
            if isinstance(base, list) and name == "copy":
                return list(base)
            if isinstance(base, list) and name in ("index", "count"):
                return getattr(base, name)(args[0])
            if name == "setdefault":
                return base.setdefault(args[0], args[1] if len(args) > 1 else None)
            if name == "get":
                return base.get(args[0], args[1] if len(args) > 1 else None)
            if name in ("items", "keys", "values"):
                return list(getattr(base, name)())
            if isinstance(base, dict) and name == "pop":
                return base.pop(args[0], *args[1:2])
            if isinstance(base, dict) and name == "update":
                base.update(*args, **kw)
                return None
            if isinstance(base, dict) and name == "copy":
                return dict(base)
        if isinstance(f, tuple) and f[0] == "builtin":
            return self.builtin(f[1], args, kw)
        if isinstance(f, tuple) and f[0] == "np":
            return self.numpy(f[1], args, kw, e)
        if isinstance(f, tuple) and f[0] == "itertools":
            import itertools
            def seqs_():
                return [list(a.it) if isinstance(a, PyIter) else list(a) for a in args if not isinstance(a, (int, type(None)))]
            if f[1] == "product":
                seqs = seqs_()
                rep_ = self._int(kw.get("repeat", 1))
                return [tuple(t) for t in itertools.product(*seqs, repeat=rep_)]
            if f[1] == "islice":
                src = args[0]
                if not isinstance(src, PyIter):
                    src = PyIter(list(src))
                return list(itertools.islice(src.it, *[None if a is None else self._int(a) for a in args[1:]]))
            if f[1] == "chain":
                return [x for q in seqs_() for x in q]
            if f[1] == "chain.from_iterable" and len(args) == 1:
                outer = list(args[0].it) if isinstance(args[0], PyIter) else list(args[0])
                return [x for q in outer for x in (list(q.it) if isinstance(q, PyIter) else list(q))]
            if f[1] == "pairwise":
                return list(itertools.pairwise(seqs_()[0]))
            raise Undecided(f"itertools.{f[1]}")
        raise Undecided(f"call `{norm(e)[:60]}`")

    def builtin(self, name, args, kw):
        if name in ("float", "int", "bool"):
            return args[0]
        if name == "abs":
            raise Undecided("abs of symbolic data")
        if name == "len":
            return len(args[0])
        if name == "range":
            return range(*[self._int(a) for a in args])
        if name == "enumerate":
            start = self._int(kw.get("start", args[1] if len(args) > 1 else 0))
            return list(enumerate(list(args[0]), start))
        if name == "reversed":
            return list(reversed(list(args[0])))
        if name == "sorted":
            vals = list(args[0])
            if kw or not all(isinstance(v, (int, float, str)) for v in vals):
                raise Undecided("sorted of symbolic data / with a key")
            return sorted(vals)
        if name == "zip":
            return list(zip(*[list(a.it) if isinstance(a, PyIter) else list(a) for a in args]))
        if name in ("list", "tuple"):
            v = (list(args[0].it) if isinstance(args[0], PyIter) else list(args[0])) if args else []
            return v if name == "list" else tuple(v)
        if name == "sum":
            tot = args[1] if len(args) > 1 else sp.Integer(0)
            for x in args[0]:
                tot = self.binop(ast.Add(), tot, x)
            return tot
        if name == "callable":
            v = args[0]
            return isinstance(v, (Fn, Closure, Cls)) or (callable(v) and not isinstance(v, (np.ndarray, sp.Basic, tuple, Obj)))
        if name == "dict":
            return dict(args[0]) if args else dict(kw)
        if name in ("all", "any"):
            vals = [self.truth(x) for x in (list(args[0].it) if isinstance(args[0], PyIter) else list(args[0]))]
            return all(vals) if name == "all" else any(vals)
        if name == "partial":
            fn, pre, prekw = args[0], list(args[1:]), dict(kw)
            return lambda *a, **k2: self.apply(fn, pre + list(a), {**prekw, **k2})
        if name == "iter" and len(args) == 2:
            fn, sentinel = args
            out = []
            for _ in range(100000):
                v = fn()
                if isinstance(v, (list, tuple)) and isinstance(sentinel, (list, tuple)) and list(v) == list(sentinel) or \
                        (not isinstance(v, (list, tuple, np.ndarray, sp.Basic)) and v == sentinel):
                    return PyIter(out)
                out.append(v)
            raise Undecided("iter(callable, sentinel) does not terminate on the symbolic configuration")
        if name == "iter":
            v = args[0]
            if isinstance(v, PyIter):
                return v
            return PyIter(list(v))
        if name == "str":
            if isinstance(args[0], (int, str)) and not isinstance(args[0], bool):
                return str(args[0])
            raise Undecided("str of symbolic data")
        if name == "slice":
            return slice(*[None if a is None else self._int(a) for a in args])
        if name == "type":
            return ("type", type(args[0]).__name__)
        if name == "isinstance":
            v, kinds = args
            kinds = kinds if isinstance(kinds, (tuple, list)) and not (isinstance(kinds, tuple) and len(kinds) == 2 and kinds[0] in ("builtin", "type", "np", "dtype")) else (kinds,)
            if any(isinstance(k, Cls) for k in kinds):
                if not all(isinstance(k, Cls) for k in kinds):
                    raise Undecided("isinstance with mixed kinds")
                return isinstance(v, Obj) and v.cls in {k.name for k in kinds}
            names = {k[1] for k in kinds if isinstance(k, tuple)}
            if names == {"ndarray"}:
                return isinstance(v, np.ndarray)
            if names and names <= {"list", "tuple", "dict", "str"}:
                return isinstance(v, tuple({"list": list, "tuple": tuple, "dict": dict, "str": str}[n_] for n_ in names)) and \
                    not hasattr(v, "_fields")
            if names and names <= {"int", "int32", "int64", "integer", "Integral"}:
                return isinstance(v, (int, np.integer, sp.Integer)) and not isinstance(v, bool)
            names = {"int" if n_ in ("int32", "int64", "integer") else "float" if n_ in ("float64", "float32", "floating") else n_ for n_ in names}
            if names <= {"Number", "Real", "float", "int", "Integral"}:
                if isinstance(v, (Fn, Closure, Obj, np.ndarray, list, tuple)) or v is None:
                    return False
                if isinstance(v, (int, float)):
                    return True
                if isinstance(v, sp.Basic):
                    # a scalar expression stands for a real number; an indeterminate that stands for a
                    # callable never reaches here (callables are Fn)
                    return True
            raise Undecided("isinstance")
        if name in ("min", "max"):
            vals = list(args[0]) if len(args) == 1 else list(args)
            extra = set(kw) - {"key", "default"}
            if extra:
                raise Undecided(f"{name} with {sorted(extra)}")
            if not vals and "default" in kw:
                return kw["default"]
            if kw.get("key") is not None:
                keyed = []
                for v_ in vals:
                    k_ = self.apply(kw["key"], [v_], {})
                    k_ = tuple(k_) if isinstance(k_, (list, tuple)) else (k_,)
                    try:
                        keyed.append((tuple(self._int(x) for x in k_), v_))
                    except Undecided:
                        raise Undecided(f"{name} with a key on symbolic data") from None
                pick = min if name == "min" else max
                best = pick(k for k, _ in keyed)
                # Python returns the first element that attains the extremum
                return next(v_ for k, v_ in keyed if k == best)
            try:
                ints = [self._int(v) for v in vals]
            except Undecided:
                if vals and all(v in self.chain for v in vals):
                    pos = [self.chain.index(v) for v in vals]
                    return self.chain[min(pos) if name == "min" else max(pos)]
                raise Undecided(f"{name} of symbolic data") from None
            return min(ints) if name == "min" else max(ints)
        raise Undecided(f"builtin {name}")

    #: keyword arguments of NumPy routines that the model reads (or that cannot change a value: dtype, copy, order); any other
    #: keyword -- out=, where=, keepdims=, ... -- would silently change the meaning if it were ignored, so it is refused
    NP_KW = {"axis", "dtype", "repeat", "min", "max", "a_min", "a_max", "axes", "fill_value", "copy", "order", "ndmin", "start",
             "subok", "like", "indexing", "return_inverse"}

    def numpy(self, name, args, kw, e):
        unknown = set(kw) - self.NP_KW
        if unknown:
            raise Undecided(f"np.{name} with the keyword(s) {sorted(unknown)}")
        if "indexing" in kw or "return_inverse" in kw:
            raise Undecided(f"np.{name} with {sorted(kw)}")
        if name in ("ones", "full", "zeros_like", "ones_like", "empty_like", "full_like"):
            if name.endswith("_like"):
                ref = args[0] if isinstance(args[0], np.ndarray) else _obj_array(args[0])
                shp = ref.shape
                fill = sp.Integer(1) if name == "ones_like" else (_exact(args[1]) if name == "full_like" else sp.Integer(0))
            else:
                shp = args[0]
                shp = tuple(self._int(x) for x in shp) if isinstance(shp, (tuple, list)) else (self._int(shp),)
                fill = sp.Integer(1) if name == "ones" else _exact(args[1] if len(args) > 1 else kw.get("fill_value"))
            out = np.empty(shp, dtype=object)
            out.fill(fill)
            return out
        if name in ("rint", "round", "around", "floor", "ceil"):
            v = args[0]
            def one(x):
                if isinstance(x, (int, np.integer, sp.Integer)):
                    return x
                if isinstance(x, (float, sp.Rational, sp.Float)):
                    return sp.Integer(int(getattr(np, "rint" if name in ("round", "around") else name)(float(x))))
                raise Undecided(f"np.{name} of symbolic data")
            if isinstance(v, np.ndarray):
                out = np.empty(v.shape, dtype=object)
                for idx in np.ndindex(v.shape):
                    out[idx] = one(v[idx])
                return out
            return one(v)
        if name in ("zeros", "empty"):
            shp = args[0]
            shp = tuple(self._int(x) for x in shp) if isinstance(shp, (tuple, list)) else (self._int(shp),)
            out = np.empty(shp, dtype=object)
            out.fill(sp.Integer(0))
            return out
        if name in ("array", "asarray"):
            return _obj_array(args[0])
        if name == "atleast_1d":
            v = args[0] if isinstance(args[0], np.ndarray) else _obj_array(args[0])
            return v.reshape(1) if v.ndim == 0 else v
        if name in ("vstack", "hstack", "concatenate"):
            parts = [x if isinstance(x, np.ndarray) else _obj_array(x) for x in args[0]]
            if name == "vstack":
                parts = [p_.reshape(1, -1) if p_.ndim == 1 else p_ for p_ in parts]
                width = {p_.shape[1] for p_ in parts}
                if len(width) != 1:
                    raise Undecided("vstack of different widths")
                out = np.empty((sum(p_.shape[0] for p_ in parts), width.pop()), dtype=object)
                r = 0
                for p_ in parts:
                    out[r:r + p_.shape[0]] = p_
                    r += p_.shape[0]
                return out
            parts = [p_.reshape(-1) if p_.ndim == 0 else p_ for p_ in parts]
            if any(p_.ndim != 1 for p_ in parts):
                raise Undecided(f"{name} of matrices")
            return arr([x for p_ in parts for x in p_])
        if name == "dot":
            a, b = (x if isinstance(x, np.ndarray) else _obj_array(x) for x in args[:2])
            if a.size == 0 or b.size == 0:
                return np.empty(a.shape[:-1] + b.shape[1:], dtype=object)
            return a.dot(b)
        if name == "pi":
            return sp.pi
        if name in ("sin", "cos", "tan", "sqrt", "arccos", "arctan2", "log"):
            fn = {"sin": sp.sin, "cos": sp.cos, "tan": sp.tan, "sqrt": sp.sqrt, "arccos": sp.acos, "arctan2": sp.atan2, "log": sp.log}[name]
            vals = [a if isinstance(a, np.ndarray) else None for a in args]
            arrs = [a for a in vals if a is not None]
            if arrs:
                shape = arrs[0].shape
                out = np.empty(shape, dtype=object)
                for idx in np.ndindex(shape):
                    out[idx] = fn(*[(a[idx] if isinstance(a, np.ndarray) else a) for a in args])
                return out
            return fn(*[sp.nsimplify(a) if isinstance(a, float) else a for a in args])
        if name == "linalg.norm":
            v = args[0] if isinstance(args[0], np.ndarray) else _obj_array(args[0])
            axis = kw.get("axis", args[1] if len(args) > 1 else None)
            sq = v * v
            tot = sq.sum(axis=None if axis is None else self._int(axis))
            if isinstance(tot, np.ndarray):
                out = np.empty(tot.shape, dtype=object)
                for idx in np.ndindex(tot.shape):
                    out[idx] = sp.sqrt(tot[idx])
                return out
            return sp.sqrt(tot)
        if name in ("prod", "product"):
            v = args[0] if isinstance(args[0], np.ndarray) else _obj_array(args[0])
            axis = kw.get("axis", args[1] if len(args) > 1 else None)
            if v.size == 0:
                return sp.Integer(1)
            return v.astype(object).prod(axis=None if axis is None else self._int(axis))
        if name == "sort":
            v = args[0] if isinstance(args[0], np.ndarray) else _obj_array(args[0])
            if v.ndim != 1:
                raise Undecided("np.sort of a matrix")
            vals = list(v)
            if all(isinstance(x, (int, float, np.integer, np.floating, sp.Integer, sp.Rational)) for x in vals):
                return arr(sorted(vals))
            if all(x in self.chain for x in vals):
                return arr(sorted(vals, key=self.chain.index))
            raise Undecided("np.sort of symbolic data (no ordering known)")
        if name == "argsort":
            v = args[0] if isinstance(args[0], np.ndarray) else _obj_array(args[0])
            vals = list(v)
            if v.ndim == 1 and all(x in self.chain for x in vals):
                return np.array(sorted(range(len(vals)), key=lambda i_: self.chain.index(vals[i_])), dtype=int)
            raise Undecided("np.argsort of symbolic data (no ordering known)")
        if name == "ravel":
            v = args[0] if isinstance(args[0], np.ndarray) else _obj_array(args[0])
            return v.ravel()
        if name in ("cumsum", "cumprod"):
            v = args[0] if isinstance(args[0], np.ndarray) else _obj_array(args[0])
            if v.ndim != 1:
                raise Undecided(f"np.{name} of a matrix")
            out, acc = [], None
            for x in v:
                acc = x if acc is None else (acc + x if name == "cumsum" else acc * x)
                out.append(acc)
            if out and all(isinstance(x, (int, np.integer)) for x in out):
                return np.array([int(x) for x in out], dtype=int)
            return arr(out)
        if name == "clip":
            v = args[0] if isinstance(args[0], np.ndarray) else _obj_array(args[0])
            lo = kw.get("a_min", kw.get("min", args[1] if len(args) > 1 else None))
            hi = kw.get("a_max", kw.get("max", args[2] if len(args) > 2 else None))
            if all(isinstance(x, (int, np.integer, sp.Integer)) and not isinstance(x, bool) for x in v.flatten()) and \
                    all(b_ is None or isinstance(b_, (int, np.integer, sp.Integer)) for b_ in (lo, hi)):
                return np.clip(np.array([int(x) for x in v.flatten()], dtype=int).reshape(v.shape),
                               None if lo is None else self._int(lo), None if hi is None else self._int(hi))
            out = np.empty(v.shape, dtype=object)
            for idx in np.ndindex(v.shape):
                x = sp.sympify(v[idx])
                if lo is not None:
                    x = sp.Max(x, sp.nsimplify(lo) if isinstance(lo, float) else lo)
                if hi is not None:
                    x = sp.Min(x, sp.nsimplify(hi) if isinstance(hi, float) else hi)
                out[idx] = x
            return out
        if name == "transpose":
            v = args[0] if isinstance(args[0], np.ndarray) else _obj_array(args[0])
            axes = kw.get("axes", args[1] if len(args) > 1 else None)
            return np.transpose(v, None if axes is None else [self._int(x) for x in axes])
        if name == "swapaxes":
            return np.swapaxes(args[0], self._int(args[1]), self._int(args[2]))
        if name == "moveaxis":
            return np.moveaxis(args[0], self._int(args[1]), self._int(args[2]))
        if name == "flatnonzero" and isinstance(args[0], np.ndarray) and args[0].dtype == bool:
            return np.flatnonzero(args[0])
        if name == "where" and len(args) == 1 and isinstance(args[0], np.ndarray) and args[0].dtype == bool:
            return tuple(np.where(args[0]))
        if name == "where" and len(args) == 3 and isinstance(args[0], np.ndarray) and args[0].dtype == bool:
            x = args[1] if isinstance(args[1], np.ndarray) else _obj_array(args[1])
            y = args[2] if isinstance(args[2], np.ndarray) else _obj_array(args[2])
            c, x, y = np.broadcast_arrays(args[0], x.astype(object), y.astype(object))
            out = np.empty(c.shape, dtype=object)
            for idx in np.ndindex(c.shape):
                out[idx] = x[idx] if c[idx] else y[idx]
            return out
        if name == "exp":
            v = args[0]
            if isinstance(v, np.ndarray):
                out = np.empty(v.shape, dtype=object)
                for idx in np.ndindex(v.shape):
                    out[idx] = sp.exp(v[idx])
                return out
            return sp.exp(v)
        if name == "sum":
            v = args[0] if isinstance(args[0], np.ndarray) else _obj_array(args[0])
            axis = kw.get("axis", args[1] if len(args) > 1 else None)
            if v.size == 0:
                return sp.Integer(0)
            return v.sum(axis=None if axis is None else self._int(axis))
        if name == "tile":
            v = args[0] if isinstance(args[0], np.ndarray) else _obj_array(args[0])
            reps = args[1]
            reps = tuple(self._int(x) for x in reps) if isinstance(reps, (tuple, list)) else (self._int(reps),)
            return np.tile(v, reps)
        if name == "arange":
            return np.arange(*[self._int(a) for a in args], dtype=int)
        if name == "repeat":
            v = args[0] if isinstance(args[0], np.ndarray) else _obj_array(args[0])
            reps = args[1]
            reps = np.array([self._int(x) for x in reps], dtype=int) if isinstance(reps, (list, tuple, np.ndarray)) else self._int(reps)
            axis = kw.get("axis", args[2] if len(args) > 2 else None)
            return np.repeat(v, reps, axis=None if axis is None else self._int(axis))
        if name == "stack":
            parts = [x if isinstance(x, np.ndarray) else _obj_array(x) for x in args[0]]
            axis = kw.get("axis", args[1] if len(args) > 1 else 0)
            return np.stack([p_.astype(object) for p_ in parts], axis=self._int(axis))
        if name in ("real", "imag"):
            fn = sp.re if name == "real" else sp.im
            v = args[0]
            if isinstance(v, np.ndarray):
                out = np.empty(v.shape, dtype=object)
                for idx in np.ndindex(v.shape):
                    out[idx] = fn(v[idx])
                return out
            return fn(v)
        if name in ("longdouble", "float64", "float32", "int64", "int32", "complex128"):
            return ("dtype", name)
        if name in ("abs", "absolute", "fabs"):
            v = args[0]
            if isinstance(v, (int, float)) and not isinstance(v, bool):
                return abs(v)
            if isinstance(v, np.ndarray):
                out = np.empty(v.shape, dtype=object)
                for idx in np.ndindex(v.shape):
                    out[idx] = v[idx] if v[idx] in self.generic else sp.Abs(v[idx])
                return out
            return v if v in self.generic else sp.Abs(v)
        if name in ("any", "all"):
            v = args[0]
            if isinstance(v, np.ndarray) and v.dtype == bool:
                return bool(getattr(np, name)(v))
            v = v if isinstance(v, np.ndarray) else _obj_array(v)
            flags = []
            for x in v.flatten():
                if isinstance(x, (int, float, np.integer, np.floating)) and not isinstance(x, bool):
                    flags.append(x != 0)
                elif isinstance(x, sp.Basic) and x.is_zero is not None:
                    flags.append(not x.is_zero)        # exactly zero, or known to be non-zero
                elif self.generic_functions and isinstance(x, sp.core.function.AppliedUndef):
                    flags.append(True)                 # the value of a user function at a generic point
                else:
                    raise Undecided(f"np.{name} of symbolic data")
            return any(flags) if name == "any" else all(flags)
        if name == "einsum":
            ops = [x if isinstance(x, np.ndarray) else _obj_array(x) for x in args[1:]]
            return np.einsum(args[0], *ops)
        if name in ("isclose", "allclose"):
            a, b = args[0], args[1]
            def num(v):
                return float(v) if isinstance(v, (int, float, np.integer, np.floating, sp.Integer, sp.Rational, sp.Float)) and not isinstance(v, bool) else None
            if not isinstance(a, np.ndarray) and not isinstance(b, np.ndarray):
                fa, fb = num(a), num(b)
                if fa is not None and fb is not None:
                    return bool(np.isclose(fa, fb))
                # a generic (non-zero) quantity is not close to zero
                for u, w in ((a, fb), (b, fa)):
                    if w is not None and w == 0.0 and isinstance(u, sp.Basic) and u.free_symbols and u.free_symbols <= self.generic:
                        return False
            raise Undecided(f"np.{name} of symbolic data")
        if name == "nan_to_num":
            v = args[0]
            def one(x):
                return sp.Integer(0) if (x is sp.nan or (isinstance(x, float) and x != x)) else x
            if isinstance(v, np.ndarray):
                out = np.empty(v.shape, dtype=object)
                for idx in np.ndindex(v.shape):
                    out[idx] = one(v[idx])
                return out
            return one(v)
        if name == "isnan":
            v = args[0] if isinstance(args[0], np.ndarray) else _obj_array(args[0])
            out = np.empty(v.shape, dtype=bool)
            for idx in np.ndindex(v.shape):
                x = v[idx]
                out[idx] = bool(x is sp.nan or (isinstance(x, sp.Basic) and x.has(sp.nan)) or (isinstance(x, float) and x != x))
            return out if out.shape != () else bool(out[()])
        if name in ("isinf", "isposinf", "isneginf", "isfinite"):
            def one(x):
                if x is sp.nan:
                    return False
                if x in (sp.oo, -sp.oo) or (isinstance(x, float) and x in (float("inf"), float("-inf"))):
                    pos = x == sp.oo or x == float("inf")
                    return {"isinf": True, "isposinf": pos, "isneginf": not pos, "isfinite": False}[name]
                if isinstance(x, (int, float, np.integer, np.floating, sp.Integer, sp.Rational, sp.Float)) or \
                        (isinstance(x, sp.Basic) and x.is_finite):
                    return name == "isfinite"
                raise Undecided(f"np.{name} of symbolic data")
            v = args[0]
            if isinstance(v, np.ndarray):
                out = np.empty(v.shape, dtype=bool)
                for idx in np.ndindex(v.shape):
                    out[idx] = one(v[idx])
                return out
            return one(v)
        if name == "sign":
            def sg(x):
                if x == sp.oo:
                    return sp.Integer(1)
                if x == -sp.oo:
                    return sp.Integer(-1)
                return sp.sign(x)
            v = args[0]
            if isinstance(v, np.ndarray):
                out = np.empty(v.shape, dtype=object)
                for idx in np.ndindex(v.shape):
                    out[idx] = sg(v[idx])
                return out
            return sg(v)
        raise Undecided(f"np.{name}")


def class_resolver(repo, cls_name, obj, it):
    """Fallback for attributes of a stub object: methods / properties of the real class, interpreted from the source."""
    def resolver(name):
        fdef = repo.resolve_method(cls_name, name)
        if fdef is None or not isinstance(fdef.node, ast.FunctionDef):
            return False, None
        decos = {getattr(d, "id", getattr(d, "attr", None)) for d in fdef.node.decorator_list}
        if "property" in decos:
            return True, it.call_def(fdef.node, [obj], {}, {})
        if "staticmethod" in decos:
            return True, (lambda *a, **k2: it.call_def(fdef.node, list(a), k2, {}))
        return True, (lambda *a, **k2: it.call_def(fdef.node, [obj] + list(a), k2, {}))
    return resolver


def module_globals_of(tree):
    """name -> expression (or ClassDef) of the module-level assignments of a parsed module."""
    out = {}
    for st in tree.body:
        if isinstance(st, ast.Assign) and len(st.targets) == 1 and isinstance(st.targets[0], ast.Name):
            out[st.targets[0].id] = st.value
        elif isinstance(st, ast.AnnAssign) and isinstance(st.target, ast.Name) and st.value is not None:
            out[st.target.id] = st.value
        elif isinstance(st, ast.ClassDef):
            out[st.name] = st
    return out


def _is_generator(node):
    stack = list(node.body)
    while stack:
        n = stack.pop()
        if isinstance(n, (ast.Yield, ast.YieldFrom)):
            return True
        if isinstance(n, (ast.FunctionDef, ast.Lambda, ast.ClassDef)):
            continue
        stack.extend(ast.iter_child_nodes(n))
    return False


def _load(t):
    import copy
    t2 = copy.deepcopy(t)
    for n in ast.walk(t2):
        if hasattr(n, "ctx"):
            n.ctx = ast.Load()
    return t2
