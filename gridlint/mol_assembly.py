"""C07, rule R7.molecular-assembly (E10).

MolGrid.__init__ is evaluated over two symbolic atomic grids (2 and 3 points): the molecular points are
the atomic points in atom order, the index table is the running size, the centres are the atomic centres,
the weights handed to the base class are atomic weight x atom-in-molecule weight point by point -- with the
aim weights given as an array, and as a callable that must receive the assembled points, the centres, the
atomic numbers and the index table and whose result is used unchanged.  `store` decides only whether
the atomic grids are kept.
"""
from __future__ import annotations

from gridlint.core import AnalysisError


def rule_assembly(rep, repo):
    import sympy as sp
    from gridlint import e10
    init = repo.resolve_method("MolGrid", "__init__")
    if init is None or init.cls != "MolGrid":
        raise AnalysisError("anchor vanished: MolGrid.__init__")
    here = init.loc()
    n_cfg = 0
    # two atoms, and a molecule of a single atom (nothing may be short-cut there: the weights are still atomic x aim)
    for sizes, kind, store in [([2, 3], k_, s_) for k_ in ("array", "callable") for s_ in (False, True)] + \
            [([3], "callable", False), ([3], "array", True)]:
        if True:
            grids, allp, allw = [], [], []
            for a, sz in enumerate(sizes):
                pts = [[sp.Symbol(f"p{a}_{k}{c}") for c in range(3)] for k in range(sz)]
                wts = [sp.Symbol(f"w{a}_{k}") for k in range(sz)]
                cen = [sp.Symbol(f"c{a}{c}") for c in range(3)]
                grids.append(e10.Obj(f"atom{a}", cls="AtomGrid", size=sz, points=e10._obj_array(pts), weights=e10.arr(wts),
                                     center=e10.arr(cen)))
                allp += pts
                allw += wts
            NT = sum(sizes)
            atnums = e10.arr([sp.Symbol(f"Z{a}") for a in range(len(sizes))])
            aim = [sp.Symbol(f"aim{n}") for n in range(NT)]
            got = {}

            def aim_callable(points, atcoords, atnums_, indices):
                got["aim_args"] = (points.copy(), atcoords.copy(), atnums_, [int(x) for x in list(indices)])
                return e10.arr(aim)
            rec = {}

            def base_init(points, weights, *a, **kw):
                rec["points"], rec["weights"] = points, weights
            obj = e10.Obj("molgrid", cls="MolGrid")
            it = e10.Interp({}, {"super": lambda *a: e10.Obj("super", __init__=base_init)})
            obj.resolver = e10.class_resolver(repo, "MolGrid", obj, it)
            aw = e10.arr(aim) if kind == "array" else aim_callable
            try:
                it.call_def(init.node, [obj, atnums, list(grids), aw], {"store": store}, {})
            except e10.Undecided as e:
                raise AnalysisError(f"MolGrid.__init__ is outside the fragment the symbolic array evaluator knows: {e}") from e
            except (IndexError, ValueError, TypeError, KeyError, AttributeError) as e:
                raise AnalysisError(f"MolGrid.__init__: the evaluation over symbolic arrays failed ({type(e).__name__}: {e})") from e
            cfg = f"{len(sizes)} atom(s), aim weights as {kind}, store={store}"
            want_idx = [0]
            for sz in sizes:
                want_idx.append(want_idx[-1] + sz)
            n_cfg += 1
            if "points" not in rec:
                rep.violation("R7.molecular-assembly", "molgrid.MolGrid.__init__", "base-class",
                              f"{cfg}: the base class is not initialised with the assembled points and weights", here)
                continue
            P, W = rec["points"], rec["weights"]
            ok = getattr(P, "shape", None) == (NT, 3) and getattr(W, "shape", None) == (NT,)
            ok = ok and all(sp.expand(P[n, c] - allp[n][c]) == 0 for n in range(NT) for c in range(3))
            if not ok:
                rep.violation("R7.molecular-assembly", "molgrid.MolGrid.__init__", "points",
                              f"{cfg}: the molecular points are not the atomic points in atom order", here)
                continue
            if any(sp.expand(W[n] - allw[n] * aim[n]) != 0 for n in range(NT)):
                rep.violation("R7.molecular-assembly", "molgrid.MolGrid.__init__", "weights",
                              f"{cfg}: the weights handed to the base class are {[str(x) for x in list(W)]}; expected atomic weight x "
                              f"atom-in-molecule weight point by point, once", here)
                continue
            idx = obj.attrs.get("_indices")
            cen = obj.attrs.get("_atcoords")
            if idx is None or [int(x) for x in list(idx)] != want_idx:
                rep.violation("R7.molecular-assembly", "molgrid.MolGrid.__init__", "indices",
                              f"{cfg}: the index table is {None if idx is None else [str(x) for x in list(idx)]}, expected {want_idx}", here)
                continue
            if cen is None or getattr(cen, "shape", None) != (len(sizes), 3) or any(
                    sp.expand(cen[a, c] - sp.Symbol(f"c{a}{c}")) != 0 for a in range(len(sizes)) for c in range(3)):
                rep.violation("R7.molecular-assembly", "molgrid.MolGrid.__init__", "centres",
                              f"{cfg}: the stored atomic coordinates are not the centres of the atomic grids", here)
                continue
            if kind == "callable":
                a_ = got.get("aim_args")
                if a_ is None or a_[3] != want_idx or a_[2] is not atnums or any(
                        sp.expand(a_[0][n, c] - allp[n][c]) != 0 for n in range(NT) for c in range(3)) or any(
                        sp.expand(a_[1][a, c] - sp.Symbol(f"c{a}{c}")) != 0 for a in range(len(sizes)) for c in range(3)):
                    rep.violation("R7.molecular-assembly", "molgrid.MolGrid.__init__", "aim-callable-arguments",
                                  f"{cfg}: the weight callable must receive the assembled points, the centres, the atomic numbers and "
                                  f"the complete index table", here)
                    continue
            kept = obj.attrs.get("_atgrids")
            if (store and (kept is None or list(kept) != grids)) or (not store and kept is not None):
                rep.violation("R7.molecular-assembly", "molgrid.MolGrid.__init__", "store",
                              f"{cfg}: the atomic grids must be kept exactly when store is true", here)
                continue
            rep.ok("R7.molecular-assembly", f"MolGrid.__init__[{cfg}]", here, "points, weights, index table, centres")
    rep.floor("R7 configurations", n_cfg, 6)
