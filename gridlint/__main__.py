"""Command line: ./check <ID> --tier quick|thorough [--root DIR]."""
from __future__ import annotations

import argparse
import importlib
import json
import os
import sys
import traceback

from gridlint.core import DEFAULT_ROOT, AnalysisError, VERIF_DIR

import re

PROPS = sorted(f[:-3].upper() for f in os.listdir(os.path.join(VERIF_DIR, "gridlint", "props"))
               if re.fullmatch(r"c\d\d\.py", f))


def run_property(pid, tier, root, evidence_dir=None, quiet=False):
    mod = importlib.import_module(f"gridlint.props.{pid.lower()}")
    return mod.run(tier=tier, root=root, evidence_dir=evidence_dir, quiet=quiet)


def main(argv=None):
    ap = argparse.ArgumentParser(prog="check")
    ap.add_argument("prop", nargs="?")
    ap.add_argument("--tier", default=os.environ.get("VERIF_TIER") or "quick",
                    choices=["quick", "thorough"])
    ap.add_argument("--root", default=DEFAULT_ROOT)
    ap.add_argument("--compile", action="store_true")
    ap.add_argument("--explain")
    ap.add_argument("--selftest", action="store_true")
    ap.add_argument("--jobs", type=int, default=16)
    ap.add_argument("--list", action="store_true")
    args = ap.parse_args(argv)
    try:
        if args.compile:
            import compileall
            ok = compileall.compile_dir(os.path.join(VERIF_DIR, "gridlint"), quiet=1, force=True,
                                        legacy=False)
            for p in PROPS:
                importlib.import_module(f"gridlint.props.{p.lower()}")
            print("gridlint: compiled and imported", len(PROPS), "property checkers")
            return 0 if ok else 2
        if args.list:
            print("\n".join(PROPS))
            return 0
        if args.explain:
            with open(args.explain, encoding="utf-8") as fh:
                rp = json.load(fh)
            print(json.dumps(rp, indent=1))
            print("--- re-running", rp["property"], "on", args.root)
            return run_property(rp["property"], "quick", args.root)
        if args.selftest:
            from gridlint import selftest
            return selftest.main(args.prop, root=args.root, jobs=args.jobs)
        if not args.prop:
            ap.error("property id required")
        pid = args.prop.upper()
        if pid not in PROPS:
            print(f"ANALYSIS-ERROR property {pid} is not claimed by gridlint (see MANIFEST not_applicable)")
            return 2
        rc = run_property(pid, args.tier, args.root)
        if rc == 0 and args.tier == "thorough":
            from gridlint import selftest
            st = selftest.main(pid, root=args.root, jobs=args.jobs, embedded=True)
            if st != 0:
                print(f"ANALYSIS-ERROR self-test of the {pid} checker failed (see above)")
                return 2
        return rc
    except AnalysisError as e:
        print(f"ANALYSIS-ERROR {e}")
        return 2
    except SystemExit:
        raise
    except BaseException:  # a crash must never be read as a violation
        print("ANALYSIS-ERROR checker crashed:")
        traceback.print_exc(file=sys.stdout)
        return 2


if __name__ == "__main__":
    sys.exit(main())
