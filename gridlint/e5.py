"""E5 -- sibling agreement by value numbering.

For a code region the analysis builds, by forward substitution of reaching definitions, a
hash-consed *value graph* of a designated result in terms of the region's inputs.  Two regions
whose graphs are equal (after the stated binding of one sibling's inputs onto the other's)
compute bit-identical results.  Nothing is executed; this is the global value numbering of an
optimising compiler used as an equivalence witness.

Normalisations: associative-commutative flattening and sorting of + and *, a/b as a*inv(b),
a-b as a+neg(b), ``x.dot(y)`` / ``np.dot(x, y)`` / ``x @ y`` as matmul, ``x.copy()`` as x,
keyword/positional normalisation for repo callees, inlining of trivial getters and of short
receiver methods (depth <= 2), augmented assignment and subscript stores as functional updates,
folding of guards over supplied constants, phi nodes for the remaining branches.
"""
from __future__ import annotations

import ast

from gridlint.core import strip_docstring

AC = {ast.Add: "+", ast.Mult: "*"}


def mk_ac(op, items):
    flat = []
    for it in items:
        if isinstance(it, tuple) and it and it[0] == "ac" and it[1] == op:
            flat.extend(it[2])
        else:
            flat.append(it)
    return ("ac", op, tuple(sorted(flat, key=repr)))


class VG:
    def __init__(self, repo, cls, fn, binding=None, depth=0, consts=None, inline=True):
        self.repo = repo
        self.cls = cls
        self.fn = fn  # ast.FunctionDef
        self.env = {}
        self.depth = depth
        self.ret = None
        self.consts = consts or {}
        self.inline = inline
        self.effects = []  # (kind, target graph, value graph) for attribute stores / appends
        a = fn.args
        for x in a.posonlyargs + a.args + a.kwonlyargs:
            self.env[x.arg] = ("sym", x.arg)
        if binding:
            self.env.update(binding)

    # ------------------------------------------------------------------ lookups
    def find(self, name):
        if self.cls is None:
            return None
        f = self.repo.resolve_method(self.cls, name)
        return f

    # ------------------------------------------------------------------ expressions
    def ev(self, e):
        if e is None:
            return None
        if isinstance(e, ast.Constant):
            return ("const", repr(e.value))
        if isinstance(e, ast.Name):
            if e.id in self.consts:
                return ("const", repr(self.consts[e.id]))
            return self.env.get(e.id, ("glob", e.id))
        if isinstance(e, ast.Attribute):
            key = ast.unparse(e)
            if key in self.env:  # attribute assigned earlier in this region (flow-sensitive fields)
                return self.env[key]
            b = self.ev(e.value)
            if b == ("sym", "self") and self.cls and self.inline is True:
                pf = self.find(e.attr)
                if pf is not None and pf.is_property:
                    body = strip_docstring(pf.node.body)
                    if len(body) == 1 and isinstance(body[0], ast.Return) and self.depth < 3:
                        sub = VG(self.repo, self.cls, pf.node, {"self": ("sym", "self")}, self.depth + 1)
                        return sub.ev(body[0].value)
            if e.attr == "T":
                return ("call", ("glob", "transpose"), (b,), ())
            return ("attr", b, e.attr)
        if isinstance(e, ast.BinOp):
            a, b = self.ev(e.left), self.ev(e.right)
            if type(e.op) in AC:
                return mk_ac(AC[type(e.op)], [a, b])
            if isinstance(e.op, ast.Div):
                return mk_ac("*", [a, ("inv", b)])
            if isinstance(e.op, ast.Sub):
                return mk_ac("+", [a, ("neg", b)])
            if isinstance(e.op, ast.MatMult):
                return ("matmul", a, b)
            return ("bin", type(e.op).__name__, a, b)
        if isinstance(e, ast.UnaryOp):
            a = self.ev(e.operand)
            if isinstance(e.op, ast.USub):
                if a[0] == "const":
                    return ("const", "-" + a[1])
                return ("neg", a)
            return ("un", type(e.op).__name__, a)
        if isinstance(e, ast.Compare):
            return ("cmp", tuple(type(o).__name__ for o in e.ops), self.ev(e.left),
                    tuple(self.ev(c) for c in e.comparators))
        if isinstance(e, ast.BoolOp):
            return ("bool", type(e.op).__name__, tuple(self.ev(v) for v in e.values))
        if isinstance(e, ast.IfExp):
            c = self.ev(e.test)
            k = fold_cond(c)
            if k is True:
                return self.ev(e.body)
            if k is False:
                return self.ev(e.orelse)
            return mk_phi(c, self.ev(e.body), self.ev(e.orelse))
        if isinstance(e, (ast.Tuple, ast.List)):
            return ("tuple" if isinstance(e, ast.Tuple) else "list", tuple(self.ev(x) for x in e.elts))
        if isinstance(e, ast.Subscript):
            return mk_sub(self.ev(e.value), self.ev(e.slice))
        if isinstance(e, ast.Slice):
            return ("slice",) + tuple(self.ev(x) if x is not None else None for x in (e.lower, e.upper, e.step))
        if isinstance(e, ast.Starred):
            return ("star", self.ev(e.value))
        if isinstance(e, (ast.ListComp, ast.GeneratorExp, ast.SetComp)):
            sub = VG(self.repo, self.cls, self.fn, dict(self.env), self.depth, self.consts, self.inline)
            gens = []
            for i, g in enumerate(e.generators):
                it = sub.ev(g.iter)
                names = [n.id for n in ast.walk(g.target) if isinstance(n, ast.Name)]
                for k, nm in enumerate(names):
                    sub.env[nm] = ("bound", i, k)
                gens.append((it, tuple(sub.ev(c) for c in g.ifs)))
            return ("comp", type(e).__name__, sub.ev(e.elt), tuple(gens))
        if isinstance(e, ast.Lambda):
            sub = VG(self.repo, self.cls, self.fn, dict(self.env), self.depth, self.consts, self.inline)
            for i, x in enumerate(e.args.args):
                sub.env[x.arg] = ("lparam", i)
            return ("lambda", len(e.args.args), sub.ev(e.body))
        if isinstance(e, ast.JoinedStr):
            return ("fstr", ast.dump(e))
        if isinstance(e, ast.Call):
            return self.ev_call(e)
        return ("expr", ast.dump(e))

    def ev_call(self, e):
        args = tuple(self.ev(a) for a in e.args)
        kws = tuple(sorted((k.arg or "**", self.ev(k.value)) for k in e.keywords))
        f = e.func
        if isinstance(f, ast.Attribute):
            recv = self.ev(f.value)
            if f.attr == "copy" and not args and not kws:
                return recv  # value identity of a copy
            if f.attr == "dot" and len(args) == 1 and not kws:
                if recv == ("glob", "np"):
                    pass
                else:
                    return ("matmul", recv, args[0])
            if recv == ("glob", "np") and f.attr == "dot" and len(args) == 2 and not kws:
                return ("matmul", args[0], args[1])
            if recv == ("glob", "np") and len(args) == 2 and not kws:
                # the function spelling of the arithmetic operators
                if f.attr == "add":
                    return mk_ac("+", [args[0], args[1]])
                if f.attr == "multiply":
                    return mk_ac("*", [args[0], args[1]])
                if f.attr == "subtract":
                    return mk_ac("+", [args[0], ("neg", args[1])])
                if f.attr in ("divide", "true_divide"):
                    return mk_ac("*", [args[0], ("inv", args[1])])
                if f.attr == "matmul":
                    return ("matmul", args[0], args[1])
            if recv == ("glob", "np") and f.attr == "negative" and len(args) == 1 and not kws:
                return ("neg", args[0])
            if recv == ("glob", "np") and f.attr in ("array", "copy", "asarray", "ascontiguousarray") and len(args) == 1 \
                    and not kws and args[0][0] not in ("list", "tuple", "comp"):
                return args[0]  # value identity of an array copy / no-op conversion
            if recv == ("sym", "self") and self.cls and self.depth < 2 and \
                    (self.inline is True or (self.inline == "private" and f.attr.startswith("_")
                                             and not f.attr.startswith("__"))):
                mf = self.find(f.attr)
                if mf is not None and not mf.is_property:
                    body = strip_docstring(mf.node.body)
                    if len(body) <= 4:
                        params = [a.arg for a in mf.node.args.args]
                        b = {"self": ("sym", "self")}
                        # fields assigned earlier in the caller are seen by the helper with those values
                        b.update({k: v for k, v in self.env.items() if k.startswith("self.")})
                        for p, a in zip(params[1:], args):
                            b[p] = a
                        for k, v in kws:
                            b[k] = v
                        sub = VG(self.repo, self.cls, mf.node, b, self.depth + 1)
                        sub.run(body)
                        if sub.ret is not None:
                            return sub.ret
            return ("call", ("attr", recv, f.attr), args, kws)
        if isinstance(f, ast.Name) and f.id == "slice" and f.id not in self.env and not kws and 1 <= len(args) <= 3:
            # slice(a, b[, c]) is the object form of a[b:c]
            full = (None,) + args if len(args) == 1 else args
            full = tuple(full) + (None,) * (3 - len(full))
            return ("slice",) + full
        fv = self.ev(f)
        return ("call", fv, args, kws)

    # ------------------------------------------------------------------ statements
    def bind(self, t, v):
        if isinstance(t, ast.Name):
            self.env[t.id] = v
        elif isinstance(t, (ast.Tuple, ast.List)):
            for i, x in enumerate(t.elts):
                if v[0] in ("tuple", "list") and len(v[1]) == len(t.elts):
                    self.bind(x, v[1][i])
                else:
                    self.bind(x, mk_sub(v, ("const", repr(i))))
        elif isinstance(t, ast.Subscript):
            base = t.value
            newv = ("setitem", self.ev(base), self.ev(t.slice), v)
            if isinstance(base, ast.Name):
                self.env[base.id] = newv
            else:
                self.env[ast.unparse(base)] = newv
        elif isinstance(t, ast.Attribute):
            self.env[ast.unparse(t)] = v
            self.effects.append(("setattr", self.ev(t.value), t.attr, v))

    def run(self, body):
        for s in body:
            self.stmt(s)

    def stmt(self, s):
        if isinstance(s, ast.Assign):
            v = self.ev(s.value)
            for t in s.targets:
                self.bind(t, v)
        elif isinstance(s, ast.AnnAssign):
            if s.value is not None:
                self.bind(s.target, self.ev(s.value))
        elif isinstance(s, ast.AugAssign):
            fake = ast.BinOp(left=_load(s.target), op=s.op, right=s.value)
            self.bind(s.target, self.ev(fake))
        elif isinstance(s, ast.Return):
            if s.value is not None:
                v = self.ev(s.value)
                if self.ret is None:
                    self.ret = v
                elif _has_none_arm(self.ret):
                    # earlier returns happened on some paths only: this return serves the others
                    self.ret = _fill_none(self.ret, v)
                # else: unreachable return (every path has returned already)
        elif isinstance(s, ast.If):
            if is_validation_block(s):
                return
            cond = self.ev(s.test)
            k = fold_cond(cond)
            if k is True:
                self.run(s.body)
                return
            if k is False:
                self.run(s.orelse)
                return
            e0 = dict(self.env)
            r0 = self.ret
            self.run(s.body)
            e1, r1 = self.env, self.ret
            self.env = dict(e0)
            self.ret = r0
            self.run(s.orelse)
            e2, r2 = self.env, self.ret
            out = {}
            for k2 in set(e1) | set(e2):
                a, b = e1.get(k2, e0.get(k2)), e2.get(k2, e0.get(k2))
                out[k2] = mk_phi(cond, a, b)
            self.env = out
            self.ret = mk_phi(cond, r1, r2)
        elif isinstance(s, ast.With):
            self.run(s.body)
        elif isinstance(s, ast.For):
            names = [n.id for n in ast.walk(s.target) if isinstance(n, ast.Name)]
            it = self.ev(s.iter)
            for k, nm in enumerate(names):
                self.env[nm] = ("loopvar", k, it)
            self.run(s.body)
        elif isinstance(s, ast.Expr):
            v = s.value
            if isinstance(v, ast.Call) and isinstance(v.func, ast.Attribute) and v.func.attr in ("append", "extend"):
                self.effects.append((v.func.attr, self.ev(v.func.value), None,
                                     self.ev(v.args[0]) if v.args else None))
                if isinstance(v.func.value, ast.Name):
                    nm = v.func.value.id
                    self.env[nm] = ("appended", self.env.get(nm, ("glob", nm)), self.ev(v.args[0]) if v.args else None)
            else:
                self.effects.append(("expr", self.ev(v), None, None))
        elif isinstance(s, ast.Delete):
            pass  # `del x` frees memory, it does not change a value
        elif isinstance(s, (ast.Raise, ast.Pass, ast.FunctionDef, ast.Assert, ast.Global, ast.Import, ast.ImportFrom)):
            pass
        elif isinstance(s, ast.Try):
            self.run(s.body)
        elif isinstance(s, ast.While):
            self.run(s.body)


def _const_int(t):
    if t is None:
        return True, None
    if isinstance(t, tuple) and t and t[0] == "const" and isinstance(t[1], str) and t[1].lstrip("-").isdigit():
        return True, int(t[1])
    return False, None


def mk_sub(b, i):
    """b[i] with the folds that need no knowledge of values: an element / a constant slice of a literal tuple or list, and
    [f(x) for x in L][k] == f(L[k])."""
    if b[0] in ("tuple", "list") and isinstance(i, tuple) and i and i[0] == "slice" and len(i) == 4:
        oks, vals = zip(*(_const_int(x) for x in i[1:]))
        if all(oks):
            return (b[0], tuple(b[1][slice(*vals)]))
    if b[0] in ("tuple", "list"):
        ok, k = _const_int(i)
        if ok and k is not None and -len(b[1]) <= k < len(b[1]):
            return b[1][k]
    if b[0] == "comp" and b[1] == "ListComp" and len(b[3]) == 1 and not b[3][0][1] and i[0] == "const" \
            and i[1].lstrip("-").isdigit() and not _contains_tag(b[2], "comp") \
            and not _contains(b[2], lambda t: t[0] == "bound" and t[1:] != (0, 0)):
        # [f(x) for x in L][k]  ==  f(L[k])   (both raise IndexError when L is too short)
        return _subst(b[2], ("bound", 0, 0), mk_sub(b[3][0][0], i))
    return ("sub", b, i)


def _contains(t, pred):
    if isinstance(t, tuple):
        if t and isinstance(t[0], str) and pred(t):
            return True
        return any(_contains(x, pred) for x in t)
    return False


def _contains_tag(t, tag):
    return _contains(t, lambda x: x[0] == tag)


def _subst(t, old, new):
    if t == old:
        return new
    if isinstance(t, tuple):
        return tuple(_subst(x, old, new) for x in t)
    return t


def lift_phi(t):
    """Pull a conditional out of the two places where it selects *which sequence is enumerated*:
    f(*phi(c, a, b)) == phi(c, f(*a), f(*b)) and a comprehension over phi(c, a, b) is
    phi(c, comprehension over a, comprehension over b).  `[x] * n` unpacked into itertools.product
    becomes the `repeat=n` form.  Conditionals elsewhere (e.g. inside a repeat count) stay put."""
    if not isinstance(t, tuple) or not t:
        return t
    t = tuple(lift_phi(x) for x in t)
    if t[0] == "call" and len(t) == 4 and isinstance(t[2], tuple):
        for i, a in enumerate(t[2]):
            if isinstance(a, tuple) and len(a) == 2 and a[0] == "star" and isinstance(a[1], tuple) and a[1] and a[1][0] == "phi":
                ph = a[1]
                arm = lambda v: lift_phi(("call", t[1], t[2][:i] + (("star", v),) + t[2][i + 1:], t[3]))  # noqa: E731
                return mk_phi(ph[1], arm(ph[2]), arm(ph[3]))
    if t[0] == "comp" and len(t) == 4 and t[3] and isinstance(t[3][0][0], tuple) and t[3][0][0] and t[3][0][0][0] == "phi":
        ph = t[3][0][0]
        arm = lambda v: lift_phi(("comp", t[1], t[2], ((v, t[3][0][1]),) + t[3][1:]))  # noqa: E731
        return mk_phi(ph[1], arm(ph[2]), arm(ph[3]))
    return _norm_product(t)


def _norm_product(t):
    if isinstance(t, tuple) and t:
        t = tuple(_norm_product(x) for x in t)
        if t[0] == "call" and isinstance(t[1], tuple) and show(t[1]).split(".")[-1] == "product" and len(t[2]) == 1 \
                and not t[3] and t[2][0][0] == "star":
            inner = t[2][0][1]
            if inner[0] == "ac" and inner[1] == "*" and len(inner[2]) == 2:
                lst = [x for x in inner[2] if x[0] == "list" and len(x[1]) == 1]
                oth = [x for x in inner[2] if not (x[0] == "list" and len(x[1]) == 1)]
                if len(lst) == 1 and len(oth) == 1:
                    return ("call", t[1], (lst[0][1][0],), (("repeat", oth[0]),))
    return t


def mk_phi(cond, a, b):
    """phi node with the obvious simplifications (same-condition nesting, equal arms)."""
    if isinstance(a, tuple) and a and a[0] == "phi" and a[1] == cond:
        a = a[2]
    if isinstance(b, tuple) and b and b[0] == "phi" and b[1] == cond:
        b = b[3]
    if a == b:
        return a
    return ("phi", cond, a, b)


def _has_none_arm(t):
    return isinstance(t, tuple) and t and t[0] == "phi" and (t[2] is None or t[3] is None
                                                             or _has_none_arm(t[2]) or _has_none_arm(t[3]))


def _fill_none(t, v):
    if t is None:
        return v
    if isinstance(t, tuple) and t and t[0] == "phi":
        return mk_phi(t[1], _fill_none(t[2], v), _fill_none(t[3], v))
    return t


def _load(t):
    import copy
    t2 = copy.deepcopy(t)
    for n in ast.walk(t2):
        if hasattr(n, "ctx"):
            n.ctx = ast.Load()
    return t2


def is_validation_block(s):
    """`if <cond>: raise ...` / warnings.warn(...) only, no else: does not change values."""
    if s.orelse:
        return False
    for x in s.body:
        if isinstance(x, ast.Raise):
            continue
        if isinstance(x, ast.Expr) and isinstance(x.value, ast.Call) and "warn" in ast.unparse(x.value.func):
            continue
        return False
    return True


def fold_cond(c):
    """True/False when the condition compares two constants, else None."""
    if isinstance(c, tuple) and c and c[0] == "cmp" and len(c[1]) == 1 and c[2][0] == "const" and c[3][0][0] == "const":
        a, b = c[2][1], c[3][0][1]
        op = c[1][0]
        if op in ("Is", "Eq"):
            return a == b
        if op in ("IsNot", "NotEq"):
            return a != b
    if isinstance(c, tuple) and c and c[0] == "const":
        if c[1] in ("True", "False"):
            return c[1] == "True"
    return None


def subst(t, m):
    if isinstance(t, tuple) and t in m:
        return m[t]
    if isinstance(t, tuple):
        r = tuple(subst(x, m) for x in t)
        if r and r[0] == "ac":
            return mk_ac(r[1], r[2])
        return r
    return t


def rename_attr(t, a, b):
    """Swap attribute names a <-> b everywhere (used for points/weights symmetry)."""
    if isinstance(t, tuple):
        if len(t) == 3 and t[0] == "attr" and t[2] in (a, b):
            return ("attr", rename_attr(t[1], a, b), b if t[2] == a else a)
        r = tuple(rename_attr(x, a, b) for x in t)
        if r and r[0] == "ac":
            return mk_ac(r[1], r[2])
        return r
    return t


def diff(a, b, path="root"):
    if a == b:
        return None
    if isinstance(a, tuple) and isinstance(b, tuple) and len(a) == len(b) and a[:1] == b[:1] and a:
        for i, (x, y) in enumerate(zip(a, b)):
            d = diff(x, y, f"{path}/{a[0]}[{i}]")
            if d:
                return d
    return (path, a, b)


def show(t, limit=220):
    """Compact rendering of a value graph."""
    def r(t):
        if not isinstance(t, tuple) or not t:
            return str(t)
        k = t[0]
        if not isinstance(k, str):
            return "(" + ", ".join(r(x) for x in t) + ")"
        if k == "const":
            return t[1]
        if k in ("sym", "glob"):
            return t[1]
        if k == "attr":
            return f"{r(t[1])}.{t[2]}"
        if k == "ac":
            return "(" + f" {t[1]} ".join(r(x) for x in t[2]) + ")"
        if k == "inv":
            return f"1/{r(t[1])}"
        if k == "neg":
            return f"-{r(t[1])}"
        if k == "call":
            return f"{r(t[1])}(" + ", ".join([r(x) for x in t[2]] + [f"{n}={r(v)}" for n, v in t[3]]) + ")"
        if k == "sub":
            return f"{r(t[1])}[{r(t[2])}]"
        if k == "matmul":
            return f"({r(t[1])} @ {r(t[2])})"
        if k in ("tuple", "list"):
            return "(" + ", ".join(r(x) for x in t[1]) + ")"
        if k == "phi":
            return f"phi({r(t[1])} ? {r(t[2])} : {r(t[3])})"
        if k == "bin":
            return f"({r(t[2])} {t[1]} {r(t[3])})"
        if k == "cmp":
            return f"({r(t[2])} {'/'.join(t[1])} {', '.join(r(x) for x in t[3])})"
        if k == "setitem":
            return f"{r(t[1])}[{r(t[2])}:={r(t[3])}]"
        if k == "slice":
            return ":".join("" if x is None else r(x) for x in t[1:])
        return k + "(" + ", ".join(r(x) for x in t[1:]) + ")"
    s = r(t)
    return s if len(s) <= limit else s[:limit] + "..."


# --------------------------------------------------------------------------------------------
# Laurent-polynomial normal form over opaque atoms
# --------------------------------------------------------------------------------------------
def laurent(t, depth=0):
    """Normal form {monomial: coefficient} of a value graph built from +, -, *, / and integer
    powers; every other node is an opaque atom.  A monomial is a sorted tuple of (atom, exponent)
    with non-zero integer exponents; coefficients are Fractions.  Division is only expanded when
    the divisor is a single monomial (otherwise the divisor becomes an atom with exponent -1).

    Equal normal forms <=> the two expressions are equal as Laurent polynomials in their atoms
    (exact arithmetic; floating-point evaluation may differ by rounding)."""
    from fractions import Fraction

    def const(c):
        return {(): Fraction(c)} if c != 0 else {}

    def atom(a):
        return {((repr(a), 1),): Fraction(1)}

    def add(p, q, sign=1):
        out = dict(p)
        for m, c in q.items():
            out[m] = out.get(m, 0) + sign * c
            if out[m] == 0:
                del out[m]
        return out

    def mulmono(m1, m2):
        d = dict(m1)
        for a, e in m2:
            d[a] = d.get(a, 0) + e
            if d[a] == 0:
                del d[a]
        return tuple(sorted(d.items()))

    def mul(p, q):
        out = {}
        for m1, c1 in p.items():
            for m2, c2 in q.items():
                m = mulmono(m1, m2)
                out[m] = out.get(m, 0) + c1 * c2
                if out[m] == 0:
                    del out[m]
        return out

    def inv(p, orig):
        if len(p) == 1:
            (m, c), = p.items()
            return {tuple(sorted((a, -e) for a, e in m)): 1 / c}
        return {((repr(("sum", orig)), -1),): Fraction(1)}

    def power(p, n, orig):
        if n == 0:
            return const(1)
        if n < 0:
            return power(inv(p, orig), -n, orig)
        out = const(1)
        for _ in range(n):
            out = mul(out, p)
        return out

    def num(s):
        try:
            f = Fraction(s)
            return f
        except (ValueError, ZeroDivisionError):
            return None

    def go(t):
        if not isinstance(t, tuple) or not t:
            return atom(t)
        k = t[0]
        if k == "const":
            f = num(t[1])
            return const(f) if f is not None else atom(t)
        if k == "ac":
            parts = [go(x) for x in t[2]]
            if t[1] == "+":
                out = {}
                for p in parts:
                    out = add(out, p)
                return out
            out = const(1)
            for p in parts:
                out = mul(out, p)
            return out
        if k == "neg":
            return {m: -c for m, c in go(t[1]).items()}
        if k == "inv":
            return inv(go(t[1]), t[1])
        if k == "bin" and t[1] == "Pow" and isinstance(t[3], tuple) and t[3][0] == "const":
            f = num(t[3][1])
            if f is not None and f.denominator == 1 and abs(f.numerator) <= 8:
                return power(go(t[2]), f.numerator, t[2])
        return atom(t)
    return go(t)


def algebraically_equal(a, b):
    return laurent(a) == laurent(b)


def show_poly(p, limit=200):
    terms = []
    for m, c in sorted(p.items(), key=lambda x: repr(x[0])):
        mon = "*".join((a if e == 1 else f"{a}^{e}") for a, e in m) or "1"
        terms.append(f"{c}*{mon}" if c != 1 else mon)
    s = " + ".join(terms)
    return s if len(s) <= limit else s[:limit] + "..."
