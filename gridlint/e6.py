"""E6 -- guard dominance, small sign domain, branch shapes."""
from __future__ import annotations

import ast

from gridlint.core import norm


def guarded_nodes(fn_node, inherited=(), mark_exits=False):
    """Yield (node, guards) for every node of the function (nested functions included, with the
    guards in force where they are *defined*).  guards is a tuple of (test text, polarity);
    an earlier `if T: raise/return` at the same block level contributes (T, False) to everything
    after it."""
    out = []

    def block(body, guards):
        g = tuple(guards)
        for s in body:
            stmt(s, g)
            if isinstance(s, ast.If) and s.body and isinstance(s.body[-1], (ast.Raise, ast.Return)) and not s.orelse:
                # with mark_exits the polarity of a guard that only stems from an earlier `if T: raise`
                # is None: the code is unconditional on every path that continues normally
                only_raise = isinstance(s.body[-1], ast.Raise)
                g = g + ((norm(s.test), None if (mark_exits and only_raise) else False),)
            elif isinstance(s, ast.If) and s.orelse and isinstance(s.orelse[-1], (ast.Raise, ast.Return)) and \
                    not (s.body and isinstance(s.body[-1], (ast.Raise, ast.Return))):
                g = g + ((norm(s.test), True),)

    def stmt(s, g):
        if isinstance(s, ast.If):
            expr(s.test, g)
            block(s.body, g + ((norm(s.test), True),))
            block(s.orelse, g + ((norm(s.test), False),))
        elif isinstance(s, (ast.For, ast.While)):
            expr(s.iter if isinstance(s, ast.For) else s.test, g)
            if isinstance(s, ast.For):
                expr(s.target, g)
            block(s.body, g)
            block(s.orelse, g)
        elif isinstance(s, ast.With):
            for it in s.items:
                expr(it.context_expr, g)
            block(s.body, g)
        elif isinstance(s, ast.Try):
            block(s.body, g)
            for h in s.handlers:
                block(h.body, g)
            block(s.orelse, g)
            block(s.finalbody, g)
        elif isinstance(s, (ast.FunctionDef, ast.AsyncFunctionDef)):
            out.append((s, g))
            block(s.body, g)
        else:
            out.append((s, g))
            for ch in ast.iter_child_nodes(s):
                if isinstance(ch, ast.expr):
                    expr(ch, g)

    def expr(e, g):
        if e is None:
            return
        if isinstance(e, ast.IfExp):
            expr(e.test, g)
            expr(e.body, g + ((norm(e.test), True),))
            expr(e.orelse, g + ((norm(e.test), False),))
            return
        out.append((e, g))
        if isinstance(e, ast.Lambda):
            expr(e.body, g)
            return
        for ch in ast.iter_child_nodes(e):
            if isinstance(ch, ast.expr):
                expr(ch, g)
            elif isinstance(ch, ast.comprehension):
                expr(ch.iter, g)
                expr(ch.target, g)
                for c in ch.ifs:
                    expr(c, g)
            elif isinstance(ch, ast.keyword):
                expr(ch.value, g)

    block(fn_node.body, tuple(inherited))
    return out


def implies(guards, positives, negatives):
    """True when some guard in force is one of ``positives`` with polarity True or one of
    ``negatives`` with polarity False."""
    for t, pol in guards:
        if pol and t in positives:
            return True
        if not pol and t in negatives:
            return True
    return False
