"""Analytic identity rules of C03 (R5 derivative chain, R6 inverse o forward, R7 inverse-function-theorem
formulas, R8 reference end points), decided on the algebraic normal forms of E8."""
from __future__ import annotations

import ast
import itertools
import operator
from fractions import Fraction

from gridlint.core import AnalysisError, norm, strip_docstring

CHAIN = (("transform", "deriv"), ("deriv", "deriv2"), ("deriv2", "deriv3"))
INF_TEXTS = ("np.inf", "numpy.inf", "math.inf", "float('inf')")


def _fold_guard(t, env):
    """Truth value of a constructor guard over candidate parameter values (None = not decidable)."""
    def val(e):
        if isinstance(e, ast.Constant) and isinstance(e.value, (int, float)) and not isinstance(e.value, bool):
            return Fraction(repr(e.value)) if isinstance(e.value, float) else Fraction(e.value)
        if isinstance(e, ast.Name):
            return env.get(e.id)
        if isinstance(e, ast.UnaryOp) and isinstance(e.op, ast.USub):
            v = val(e.operand)
            return None if v is None else -v
        if isinstance(e, ast.BinOp) and isinstance(e.op, (ast.Add, ast.Sub, ast.Mult)):
            a, b = val(e.left), val(e.right)
            if a is None or b is None:
                return None
            return a + b if isinstance(e.op, ast.Add) else a - b if isinstance(e.op, ast.Sub) else a * b
        return None
    if isinstance(t, ast.BoolOp):
        ks = [_fold_guard(v, env) for v in t.values]
        if isinstance(t.op, ast.Or):
            return True if True in ks else (None if None in ks else False)
        return False if False in ks else (None if None in ks else True)
    if isinstance(t, ast.UnaryOp) and isinstance(t.op, ast.Not):
        k = _fold_guard(t.operand, env)
        return None if k is None else not k
    if isinstance(t, ast.Compare):
        vals = [val(t.left)] + [val(c) for c in t.comparators]
        if any(v is None for v in vals):
            return None
        ops = {ast.Lt: operator.lt, ast.LtE: operator.le, ast.Gt: operator.gt, ast.GtE: operator.ge,
               ast.Eq: operator.eq, ast.NotEq: operator.ne}
        if any(type(o) not in ops for o in t.ops):
            return None
        return all(ops[type(o)](a, b) for o, a, b in zip(t.ops, vals, vals[1:]))
    return None


def sample_points(repo, k, alg):
    """Admissible rational sample points: parameters accepted by every `if ...: raise` guard of the
    constructor, x in the interior of the literal `_domain`.  They serve the sign normalisation of power
    bases and as *witnesses of a non-identity*; they are never evidence for an identity."""
    import sympy as sp
    init = repo.resolve_method(k, "__init__")
    body = strip_docstring(init.node.body)
    a = init.node.args
    defaults = dict(zip([x.arg for x in a.args[len(a.args) - len(a.defaults):]], a.defaults))
    params = [p for p in init.params[1:]
              if not (p in defaults and isinstance(defaults[p], ast.Constant) and isinstance(defaults[p].value, bool))]
    field_of = {}
    domain = None
    for st in body:
        if isinstance(st, ast.Assign) and isinstance(st.targets[0], ast.Attribute) and norm(st.targets[0].value) == "self":
            if isinstance(st.value, ast.Name) and st.value.id in params:
                field_of[st.value.id] = st.targets[0].attr.lstrip("_")
            if st.targets[0].attr == "_domain" and isinstance(st.value, ast.Tuple) and len(st.value.elts) == 2:
                domain = st.value.elts
    if domain is None:
        raise AnalysisError(f"unrecognised idiom: {k}.__init__ does not assign a literal `_domain` pair")
    guards = [st.test for st in body if isinstance(st, ast.If) and st.body and isinstance(st.body[-1], ast.Raise)]
    pool = [Fraction(5, 2), Fraction(3, 7), Fraction(3), Fraction(3, 2), Fraction(4), Fraction(7, 2), Fraction(1)]
    combos = []
    for combo in itertools.product(pool, repeat=len(params)):
        if len(set(combo)) < len(combo):
            continue
        env = dict(zip(params, combo))
        if any(_fold_guard(g, env) is True for g in guards):
            continue
        combos.append(env)
        if len(combos) >= 60:
            break
    if not combos and params:
        raise AnalysisError(f"no admissible parameter sample for {k} (constructor guards reject the whole pool)")
    combos = (combos[::max(1, len(combos) // 4)] or [{}])[:4]

    def end(e):
        if isinstance(e, ast.Constant) and isinstance(e.value, (int, float)):
            return Fraction(e.value)
        if isinstance(e, ast.UnaryOp) and isinstance(e.op, ast.USub) and isinstance(e.operand, ast.Constant):
            return -Fraction(e.operand.value)
        if norm(e) in INF_TEXTS:
            return None
        raise AnalysisError(f"unrecognised idiom: domain end `{norm(e)}` of {k}")
    lo, hi = end(domain[0]), end(domain[1])
    if lo is None:
        raise AnalysisError(f"unrecognised idiom: {k} has an infinite lower domain end")
    fr = (Fraction(1, 3), Fraction(4, 5), Fraction(1, 7))
    xs = [lo + (hi - lo) * f for f in fr] if hi is not None else [lo + f * 3 for f in fr]
    pts = []
    for i, env in enumerate(combos):
        for j, xv in enumerate(xs):
            if (i + j) % 2 == 0 or len(combos) == 1:
                pt = {alg.x: sp.Rational(xv.numerator, xv.denominator)}
                for p_, v in env.items():
                    pt[alg.param(field_of.get(p_, p_))] = sp.Rational(v.numerator, v.denominator)
                pts.append(pt)
    return pts, (lo, hi), field_of


def rule_identities(rep, repo, classes):
    """R5 derivative chain, R6 inverse o forward, R8 end points."""
    import sympy as sp
    from gridlint import e8
    n_proved = 0
    undecided = []
    for k in classes:
        if k == "InverseRTransform":
            continue  # generic wrapper: covered by R1/R7 (formulas over the wrapped transform)
        alg = e8.Algebra("x")
        pts, (lo, hi), field_of = sample_points(repo, k, alg)
        alg.ref = pts[0]
        F = e8.Formula(repo, k, alg)
        raw, nfs = {}, {}
        for m in ("transform", "deriv", "deriv2", "deriv3", "inverse"):
            f = repo.resolve_method(k, m)
            if f is None or f.cls == "BaseTransform":
                raise AnalysisError(f"anchor vanished: {k}.{m} is not implemented by a concrete class")
            try:
                raw[m] = F.method(m, alg.x)
            except e8.Undecided as e:
                raise AnalysisError(f"formula of {k}.{m} is outside the closed-form fragment: {e}") from e
            try:
                nfs[m] = alg.nf(raw[m])
            except e8.Undecided:
                nfs[m] = None
        # R5 derivative chain
        for fa, fb in CHAIN:
            fnode = repo.resolve_method(k, fb)
            cons = f"rtransform.{k}.{fb}"
            d = None
            if nfs[fa] is not None and nfs[fb] is not None:
                d = alg.D(nfs[fa])
                if alg.zero(d - nfs[fb]):
                    rep.ok("R5.derivative-chain", f"{k}.{fb} = d/dx {fa}", fnode.loc(),
                           "proved on the normal form: " + alg.show(nfs[fb], 110))
                    n_proved += 1
                    continue
                w = e8.witness(alg, d, nfs[fb], pts)
            else:
                w = e8.witness(alg, sp.diff(raw[fa], alg.x), raw[fb], pts, raw=True)
            if w is None:
                undecided.append(f"cannot decide whether {k}.{fb} is the derivative of {k}.{fa} (normal forms "
                                 f"differ or cannot be built, and no witness point separates them)")
                continue
            pt, va, vb = w
            rep.violation("R5.derivative-chain", cons, f"d/dx {fa}",
                          f"`{fb}` is not the derivative of `{fa}`: at {e8.show_point(pt)} the derivative of "
                          f"{k}.{fa} is {sp.N(va, 12)} but {k}.{fb} returns {sp.N(vb, 12)} (the formulas were compared as "
                          f"exact normal forms: the identity fails for general parameters, this point is one witness)",
                          fnode.loc(),
                          [f"d/dx {fa} = {alg.show(d, 300) if d is not None else '(normal form not available)'}",
                           f"{fb} = {alg.show(nfs[fb], 300) if nfs[fb] is not None else str(raw[fb])[:300]}"])
        # R6 inverse undoes forward
        fnode = repo.resolve_method(k, "inverse")
        try:
            comp_raw = F.method("inverse", raw["transform"])
        except e8.Undecided as e:
            raise AnalysisError(f"formula of {k}.inverse is outside the closed-form fragment: {e}") from e
        try:
            comp = alg.nf(comp_raw)
        except e8.Undecided:
            comp = None
        if comp is not None and alg.zero(comp - alg.x):
            rep.ok("R6.inverse-undoes-forward", f"{k}.inverse o transform", fnode.loc(),
                   "inverse(transform(x)) == x on the normal form")
            n_proved += 1
        else:
            w = e8.witness(alg, comp, alg.x, pts) if comp is not None else e8.witness(alg, comp_raw, alg.x, pts, raw=True)
            if w is None:
                undecided.append(f"cannot decide inverse(transform(x)) == x for {k}")
            else:
                pt, va, _ = w
                rep.violation("R6.inverse-undoes-forward", f"rtransform.{k}.inverse", "transform",
                          f"inverse(transform(x)) is not x: at {e8.show_point(pt)} it evaluates to {sp.N(va, 12)}",
                          fnode.loc(),
                          [f"inverse(transform(x)) = {alg.show(comp, 300) if comp is not None else str(comp_raw)[:300]}"])
        # R8 reference end points
        try:
            end_points(rep, repo, k, F, alg, lo, hi, field_of)
        except AnalysisError as e:
            undecided.append(str(e))
    rep.floor("analytic identities proved on normal forms", n_proved, 40)
    if undecided:
        raise AnalysisError("; ".join(undecided[:3]) + (f" (+{len(undecided) - 3} more)" if len(undecided) > 3 else ""))


def end_points(rep, repo, k, F, alg, lo, hi, field_of):
    """The forward map sends the reference end points (the finite domain ends; 0 and the scale point b
    for the b-scaled maps) to the ends of the literal `_codomain`.  The formula is evaluated *at* the end
    point with positive parameters (0**m = 0; log 0 and 1/0 infinite); finite images are compared on
    normal forms."""
    import sympy as sp
    from gridlint import e8
    init = repo.resolve_method(k, "__init__")
    cod = None
    for st in strip_docstring(init.node.body):
        if isinstance(st, ast.Assign) and isinstance(st.targets[0], ast.Attribute) and st.targets[0].attr == "_codomain" \
                and isinstance(st.value, ast.Tuple) and len(st.value.elts) == 2:
            cod = st.value.elts
    if cod is None:
        raise AnalysisError(f"unrecognised idiom: {k}.__init__ does not assign a literal `_codomain` pair")

    def cod_end(e):
        if norm(e) in INF_TEXTS:
            return "inf"
        if isinstance(e, ast.Name):
            return alg.param(field_of.get(e.id, e.id))
        if isinstance(e, ast.Constant) and isinstance(e.value, (int, float)):
            return sp.nsimplify(e.value)
        raise AnalysisError(f"unrecognised idiom: codomain end `{norm(e)}` of {k}")
    targets = [cod_end(e) for e in cod]
    # b-scaled maps fix their scale point with set_maximum_parameter_b (the other maps may have a shape
    # parameter that happens to be called b)
    b_scaled = "b" in init.params and repo.resolve_method(k, "set_maximum_parameter_b") is not None
    if b_scaled and hi is None:
        refs = [("0", sp.Integer(0)), ("b", alg.param("b"))]
    else:
        refs = [(str(lo), sp.Rational(lo.numerator, lo.denominator))]
        if hi is not None:
            refs.append((str(hi), sp.Rational(hi.numerator, hi.denominator)))
    fnode = repo.resolve_method(k, "transform")
    images = []
    for label, x0 in refs:
        try:
            raw = F.method("transform", x0)
        except e8.Undecided as e:
            raise AnalysisError(f"formula of {k}.transform at x={label}: {e}") from e
        raw = sp.sympify(raw)
        pos = {s_: sp.Symbol(s_.name, positive=True) for s_ in raw.free_symbols}
        back = {v: k_ for k_, v in pos.items()}
        val = raw.subs(pos)
        if val.has(sp.zoo, sp.oo, -sp.oo, sp.nan):
            images.append((label, "nan" if val.has(sp.nan) else "inf"))
            continue
        try:
            images.append((label, alg.nf(val.subs(back))))
        except e8.Undecided as e:
            raise AnalysisError(f"image of the end point x={label} under {k}.transform: {e}") from e

    def same(a, b):
        if isinstance(a, str) or isinstance(b, str):
            return isinstance(a, str) and isinstance(b, str) and a == b
        return alg.zero(a - b)
    for label, img in images:
        hit = [t for t in targets if same(img, t if isinstance(t, str) else alg.nf(t))]
        if hit:
            rep.ok("R8.end-point-images", f"{k}.transform({label})", fnode.loc(), f"-> {hit[0]}")
        else:
            rep.violation("R8.end-point-images", f"rtransform.{k}.transform", f"x={label}",
                          f"the forward map sends the reference end point x={label} to "
                          f"{img if isinstance(img, str) else alg.show(img, 120)}, which is neither end of the declared "
                          f"codomain ({', '.join(str(t) for t in targets)})", fnode.loc())
    if len(images) == 2 and not isinstance(images[0][1], str) and not isinstance(images[1][1], str) \
            and alg.zero(images[0][1] - images[1][1]):
        rep.violation("R8.end-point-images", f"rtransform.{k}.transform", "distinct",
                      "both reference end points have the same image", fnode.loc())


def rule_ift(rep, repo):
    """R7: the generic inverse-derivative formulas of BaseTransform are the inverse-function-theorem
    formulas.  With d1, d2, d3 the derivatives of the forward map at x = inverse(r):
    first 1/d1, second -d2/d1**3, third (3*d2**2 - d1*d3)/d1**5."""
    import sympy as sp
    from gridlint import e8
    for name in ("deriv_inverse", "deriv2_inverse", "deriv3_inverse"):
        alg = e8.Algebra("r")
        F = e8.Formula(repo, "BaseTransform", alg, opaque=("deriv", "deriv2", "deriv3", "inverse"))
        f = repo.method("BaseTransform", name)
        try:
            got = F.method(name, alg.x)
        except e8.Undecided as e:
            raise AnalysisError(f"BaseTransform.{name} is outside the closed-form fragment: {e}") from e
        inv_sym = None
        for (mname, arg), s_ in F.opaque_syms.items():
            if mname == "inverse" and arg == sp.srepr(alg.x):
                inv_sym = s_
        if inv_sym is None:
            raise AnalysisError(f"unrecognised idiom: BaseTransform.{name} does not evaluate inverse(r)")
        sy = {}
        for (mname, arg), s_ in F.opaque_syms.items():
            if mname != "inverse":
                if arg != sp.srepr(inv_sym):
                    rep.violation("R7.inverse-function-theorem", f"rtransform.BaseTransform.{name}", mname,
                                  f"`{mname}` of the forward map is evaluated at `{arg[:60]}` instead of at inverse(r)",
                                  f.loc())
                sy[mname] = s_
        d1, d2, d3 = (sy.get(n, sp.Symbol("unused_" + n)) for n in ("deriv", "deriv2", "deriv3"))
        want = {"deriv_inverse": 1 / d1, "deriv2_inverse": -d2 / d1 ** 3,
                "deriv3_inverse": (3 * d2 ** 2 - d1 * d3) / d1 ** 5}[name]
        if alg.zero(got - want):
            rep.ok("R7.inverse-function-theorem", f"BaseTransform.{name}", f.loc(), str(want))
        else:
            rep.violation("R7.inverse-function-theorem", f"rtransform.BaseTransform.{name}", "formula",
                          f"returns {sp.factor(got)} (deriv_k = derivatives of the forward map at inverse(r)); the "
                          f"inverse function theorem gives {want}", f.loc())


# ================================================================================== C17: Coulomb potentials
def coulomb_formula(repo, fname, normalized, alg):
    """(main, small, function) of a Gaussian-potential routine: `main` is the formula returned for radii
    at or above the small-r threshold (the `where=` region of the masked ufunc / the else-arm of
    np.where(r < threshold, ...)), `small` what is returned below it (masked constant stores / the
    other arm).  `normalized` folds the `if normalized:` exit.  Module-level private helpers are
    interpreted with the (main, small) pairs of their arguments."""
    import copy
    import sympy as sp
    from gridlint import e8
    f = repo.module_func("coulomb", fname)
    F = e8.Formula(repo, None, alg)
    params = f.params
    if len(params) < 2:
        raise AnalysisError(f"anchor vanished: coulomb.{fname}(r, alpha, ...)")
    helpers = {g.name: g for g in repo.funcs.values()
               if g.module == "coulomb" and g.cls is None and not g.is_lambda and isinstance(g.node, ast.FunctionDef)}
    rname = params[0]
    counter = [0]

    class Frame:
        def __init__(self, env, flags, rvar):
            self.env = env          # name -> (main, small)
            self.flags = flags
            self.rvar = rvar        # names that hold the radius (for masks)
            self.masks = {}         # boolean locals: name -> True (r < threshold) / False (r >= threshold)

        def small_mask(self, e):
            """True if the boolean expression means r < threshold, False if r >= threshold, else None."""
            if isinstance(e, ast.Name) and e.id in self.masks:
                return self.masks[e.id]
            if isinstance(e, ast.UnaryOp) and isinstance(e.op, (ast.Invert, ast.Not)):
                m_ = self.small_mask(e.operand)
                return None if m_ is None else not m_
            if isinstance(e, ast.Call) and norm(e.func) in ("np.logical_not", "np.invert") and len(e.args) == 1:
                m_ = self.small_mask(e.args[0])
                return None if m_ is None else not m_
            t = norm(e)
            for rv in self.rvar:
                if t.startswith(f"{rv} < ") or t.startswith(f"{rv} <= "):
                    return True
                if t.startswith(f"{rv} >= ") or t.startswith(f"{rv} > "):
                    return False
            return None

        def ev2(self, e):
            """Dual value of an expression: special calls are evaluated structurally, the rest through
            the formula translator, once per region."""
            e = copy.deepcopy(e)

            class Lift(ast.NodeTransformer):
                def visit_Subscript(inner, n):   # noqa: N805
                    # x[mask]: the entries of x in that region -- the region is tracked by the pair itself
                    if self.small_mask(n.slice) is not None:
                        return inner.visit(n.value)
                    return inner.generic_visit(n)

                def visit_Call(inner, n):   # noqa: N805
                    fn = norm(n.func)
                    special = None
                    if fn in ("np.empty_like", "np.zeros_like", "np.empty", "np.zeros"):
                        special = (sp.Integer(0), sp.Integer(0))
                    elif fn == "np.where" and len(n.args) == 3:
                        m = self.small_mask(n.args[0])
                        if m is None:
                            raise e8.Undecided(f"np.where on `{norm(n.args[0])[:40]}`")
                        a_, b_ = self.ev2(n.args[1]), self.ev2(n.args[2])
                        special = (b_[0], a_[1]) if m else (a_[0], b_[1])
                    elif isinstance(n.func, ast.Name) and n.func.id in helpers and n.func.id != fname:
                        special = call_helper(helpers[n.func.id], [self.ev2(a_) for a_ in n.args],
                                              {k.arg: self.ev2(k.value) for k in n.keywords}, self)
                    if special is None:
                        return inner.generic_visit(n)
                    counter[0] += 1
                    nm = f"__t{counter[0]}"
                    self.env[nm] = special
                    return ast.copy_location(ast.Name(id=nm, ctx=ast.Load()), n)
            e = ast.fix_missing_locations(Lift().visit(e))
            em = {k: v[0] for k, v in self.env.items()}
            es = {k: v[1] for k, v in self.env.items() if v[1] is not None}
            main = F.ev(e, em, 0)
            try:
                small = F.ev(e, es, 0)
            except e8.Undecided:
                small = None
            return main, small

        def block(self, stmts):
            for s in stmts:
                if isinstance(s, ast.Expr) and isinstance(s.value, ast.Constant):
                    continue
                if isinstance(s, ast.If):
                    t = s.test
                    if isinstance(t, ast.Name) and t.id in self.flags:
                        r_ = self.block(s.body if self.flags[t.id] else s.orelse)
                        if r_ is not None:
                            return r_
                        continue
                    if isinstance(t, ast.UnaryOp) and isinstance(t.op, ast.Not) and isinstance(t.operand, ast.Name) \
                            and t.operand.id in self.flags:
                        r_ = self.block(s.orelse if self.flags[t.operand.id] else s.body)
                        if r_ is not None:
                            return r_
                        continue
                    if s.body and isinstance(s.body[-1], ast.Raise) and not s.orelse:
                        continue   # validation
                    raise e8.Undecided(f"branch on `{norm(t)[:50]}`")
                if isinstance(s, ast.Assign) and len(s.targets) == 1 and isinstance(s.targets[0], ast.Name) and \
                        self.small_mask(s.value) is not None:
                    self.masks[s.targets[0].id] = self.small_mask(s.value)
                    continue
                if isinstance(s, ast.Assign) and len(s.targets) == 1 and isinstance(s.targets[0], ast.Name):
                    self.env[s.targets[0].id] = self.ev2(s.value)
                    if isinstance(s.value, ast.Call) and norm(s.value.func) in ("np.atleast_1d", "np.asarray", "np.array") \
                            and s.value.args and any(isinstance(x, ast.Name) and x.id in self.rvar for x in ast.walk(s.value)):
                        self.rvar.add(s.targets[0].id)
                    continue
                if isinstance(s, ast.Assign) and len(s.targets) == 1 and isinstance(s.targets[0], ast.Subscript) and \
                        isinstance(s.targets[0].value, ast.Name):
                    nm = s.targets[0].value.id
                    m = self.small_mask(s.targets[0].slice)
                    v = self.ev2(s.value)
                    old = self.env.get(nm, (None, None))
                    if m is True:
                        self.env[nm] = (old[0], v[1])
                    elif m is False:
                        self.env[nm] = (v[0], old[1])
                    else:
                        raise e8.Undecided(f"store `{norm(s)[:60]}`")
                    continue
                if isinstance(s, ast.AugAssign) and isinstance(s.target, ast.Name):
                    fake = ast.BinOp(left=ast.Name(id=s.target.id, ctx=ast.Load()), op=s.op, right=s.value)
                    self.env[s.target.id] = self.ev2(fake)
                    continue
                if isinstance(s, ast.Expr) and isinstance(s.value, ast.Call) and norm(s.value.func) in (
                        "np.divide", "np.multiply", "np.add", "np.subtract", "np.true_divide") and len(s.value.args) == 2:
                    kws = {k.arg: k.value for k in s.value.keywords}
                    if "out" in kws and isinstance(kws["out"], ast.Name):
                        op = {"np.divide": ast.Div(), "np.true_divide": ast.Div(), "np.multiply": ast.Mult(),
                              "np.add": ast.Add(), "np.subtract": ast.Sub()}[norm(s.value.func)]
                        v = self.ev2(ast.BinOp(left=s.value.args[0], op=op, right=s.value.args[1]))
                        old = self.env.get(kws["out"].id, (None, None))
                        m = self.small_mask(kws["where"]) if "where" in kws else None
                        if "where" not in kws:
                            self.env[kws["out"].id] = v
                        elif m is False:       # computed where r >= threshold only
                            self.env[kws["out"].id] = (v[0], old[1])
                        elif m is True:
                            self.env[kws["out"].id] = (old[0], v[1])
                        else:
                            raise e8.Undecided(f"mask `{norm(kws['where'])[:40]}`")
                        continue
                    raise e8.Undecided(f"ufunc call `{norm(s)[:60]}`")
                if isinstance(s, ast.Return) and s.value is not None:
                    return self.ev2(s.value)
                if isinstance(s, ast.Expr) and isinstance(s.value, ast.Call) and isinstance(s.value.func, ast.Name) and \
                        s.value.func.id in helpers and s.value.func.id != fname:
                    # a helper called for its effect on an array argument (`_erf_over_r(r, sqrt_alpha, out=out)`): the arrays
                    # the helper stores into are the caller's arrays
                    h = helpers[s.value.func.id]
                    argn = list(zip(h.params, s.value.args)) + [(k.arg, k.value) for k in s.value.keywords]
                    fr2 = call_helper(h, [self.ev2(a_) for a_ in s.value.args], {k.arg: self.ev2(k.value) for k in s.value.keywords},
                                      self, want_frame=True)
                    for p_, a_ in argn:
                        if isinstance(a_, ast.Name) and p_ in fr2.env:
                            self.env[a_.id] = fr2.env[p_]
                    continue
                raise e8.Undecided(f"statement `{norm(s)[:60]}`")
            return None

    def call_helper(h, args, kw, caller, want_frame=False):
        hp = h.params
        env = {}
        rvar = set()
        for p_, a_ in zip(hp, args):
            env[p_] = a_
            if a_[0] == alg.x:
                rvar.add(p_)
        for k_, v_ in kw.items():
            env[k_] = v_
            if v_[0] == alg.x:
                rvar.add(k_)
        fr = Frame(env, {}, rvar)
        r_ = fr.block(strip_docstring(h.node.body))
        if want_frame:
            return fr
        if r_ is None:
            raise e8.Undecided(f"helper {h.name} returns nothing")
        return r_
    env0 = {params[0]: (alg.x, alg.x), params[1]: (alg.param("alpha"), alg.param("alpha"))}
    fr = Frame(env0, {p_: normalized for p_ in params[2:3]}, {rname})
    r_ = fr.block(strip_docstring(f.node.body))
    if r_ is None or r_[1] is None:
        raise e8.Undecided(f"coulomb.{fname}: no returned formula for both regions")
    return r_[0], r_[1], f


def rule_coulomb(rep, repo):
    """The s- and p-type routines return the electrostatic potential of the density they document:
      P1  radial Poisson equation  (r V)'' = -4 pi r rho   (normal forms with an erf generator)
      P2  the constant returned below the small-r threshold is the limit of the formula at r -> 0
      P3  r V -> total charge of the density as r -> infinity (no additive constant, no 1/r defect)
    for the normalised and the unnormalised variant of both functions.  The documented densities are
    the specification (docstrings of coulomb.py): s: (alpha/pi)^(3/2) e^(-alpha r^2), p:
    (2/3) alpha^(5/2) pi^(-3/2) r^2 e^(-alpha r^2); unnormalised: e^(-alpha r^2), r^2 e^(-alpha r^2)."""
    import sympy as sp
    from gridlint import e8
    n_ok = 0
    for fname, kind in (("coulomb_gaussian_s", "s"), ("coulomb_gaussian_p", "p")):
        for normalized in (True, False):
            alg = e8.Algebra("r")
            r_, a_, pi_ = alg.x, alg.param("alpha"), alg.param("pi")
            alg.ref = {r_: sp.Rational(3, 4), a_: sp.Rational(5, 2), pi_: sp.pi}
            pts = [{r_: sp.Rational(3, 4), a_: sp.Rational(5, 2), pi_: sp.pi},
                   {r_: sp.Rational(1, 5), a_: sp.Rational(7, 3), pi_: sp.pi},
                   {r_: sp.Rational(9, 4), a_: sp.Rational(1, 3), pi_: sp.pi}]
            label = "normalized" if normalized else "unnormalized"
            try:
                main, small, f = coulomb_formula(repo, fname, normalized, alg)
                V = alg.nf(main)
                Vs = alg.nf(small)
            except e8.Undecided as e:
                raise AnalysisError(f"formula of coulomb.{fname} is outside the closed-form fragment: {e}") from e
            gauss = sp.exp(-a_ * r_ ** 2)
            if kind == "s":
                rho = (a_ / pi_) ** sp.Rational(3, 2) * gauss if normalized else gauss
                charge = sp.Integer(1) if normalized else (pi_ / a_) ** sp.Rational(3, 2)
            else:
                rho = sp.Rational(2, 3) * a_ ** sp.Rational(5, 2) / pi_ ** sp.Rational(3, 2) * r_ ** 2 * gauss \
                    if normalized else r_ ** 2 * gauss
                charge = sp.Integer(1) if normalized else sp.Rational(3, 2) * pi_ ** sp.Rational(3, 2) / a_ ** sp.Rational(5, 2)
            rho_n, charge_n = alg.nf(rho), alg.nf(charge)
            cons = f"coulomb.{fname}"
            # P1
            lhs = alg.D(alg.D(r_ * V))
            rhs = -4 * pi_ * r_ * rho_n
            if alg.zero(lhs - rhs):
                rep.ok("P1.poisson-identity", f"{fname}[{label}]", f.loc(), "(r V)'' == -4 pi r rho on the normal form")
                n_ok += 1
            else:
                w = e8.witness(alg, lhs, rhs, pts)
                if w is None:
                    raise AnalysisError(f"cannot decide the Poisson identity for coulomb.{fname} ({label})")
                pt, va, vb = w
                implied = sp.factor(sp.cancel(-lhs / (4 * pi_ * r_)))
                rep.violation("P1.poisson-identity", cons, label,
                              f"the {label} {kind}-type potential is not the potential of the density it documents: at "
                              f"{e8.show_point({k: v for k, v in pt.items() if k != pi_})} (r V)'' = {sp.N(va, 10)} but "
                              f"-4 pi r rho = {sp.N(vb, 10)}; the formula returned solves the Poisson equation for the "
                              f"density {alg.show(implied, 140)} instead", f.loc())
            # P2: limit at r -> 0 by l'Hopital on the normal form
            lim = _limit_zero(alg, V)
            if lim is None:
                raise AnalysisError(f"cannot take the r -> 0 limit of coulomb.{fname} ({label})")
            Vs0 = Vs
            if alg.x in sp.sympify(Vs).free_symbols:
                # an expansion in r is used below the threshold: its value at r = 0 is compared; how far it
                # may be used (threshold x exponent) is a numerical question that is not decided here
                Vs0 = _limit_zero(alg, Vs)
                rep.note(f"coulomb.{fname} ({label}) uses an r-dependent formula below the small-r threshold "
                         f"({alg.show(Vs, 80)}); only its value at r = 0 is compared with the limit")
            if Vs0 is not None and alg.zero(lim - Vs0):
                rep.ok("P2.small-r-limit", f"{fname}[{label}]", f.loc(), f"value below the threshold = limit {alg.show(lim, 60)}")
                n_ok += 1
            else:
                rep.violation("P2.small-r-limit", cons, label,
                              f"below the small-r threshold the routine returns {alg.show(Vs, 80)} but the formula used "
                              f"above it tends to {alg.show(lim, 80)} as r -> 0: the potential jumps at the switch", f.loc())
            # P3: r V -> total charge
            inf = _limit_infinity(alg, sp.cancel(r_ * V))
            if inf is None:
                raise AnalysisError(f"cannot take the r -> infinity limit of r V for coulomb.{fname} ({label})")
            if isinstance(inf, tuple):
                rep.violation("P3.total-charge-at-infinity", cons, label,
                              f"r V behaves like {alg.show(inf[1], 80)} at large r instead of tending to the total charge "
                              f"{alg.show(charge_n, 60)}: the potential does not decay like charge / r", f.loc())
            elif alg.zero(inf - charge_n):
                rep.ok("P3.total-charge-at-infinity", f"{fname}[{label}]", f.loc(), f"r V -> {alg.show(inf, 60)}")
                n_ok += 1
            else:
                rep.violation("P3.total-charge-at-infinity", cons, label,
                              f"r V tends to {alg.show(inf, 80)} at large r, the documented density carries the charge "
                              f"{alg.show(charge_n, 80)}", f.loc())
    rep.floor("Coulomb identities established", n_ok, 8)


def _subs_generators(alg, e, at_zero):
    """Replace the x-dependent generators of a normal form by their limits at r = 0 (at_zero) or at
    r -> infinity: exp(-c r^2) -> 1 / 0, erf(c r) -> 0 / 1 for positive c."""
    import sympy as sp
    sub = {}
    for g in [s_ for s_ in e.free_symbols if s_ in alg.info]:
        kind, a, unit = alg.info[g]
        if alg.x not in sp.sympify(a).free_symbols:
            continue
        if kind == "E":
            a0 = sp.cancel(a.subs(alg.x, 0))
            if at_zero and a0 == 0:
                sub[g] = sp.Integer(1)
            elif not at_zero:
                sub[g] = sp.Symbol("__INF__")   # exp(+c r^2): only its reciprocal may survive
            else:
                return None
        elif kind == "R":
            a0 = sp.cancel(a.subs(alg.x, 0))
            if at_zero and a0 == 0:
                sub[g] = sp.Integer(0)
            elif not at_zero:
                sub[g] = sp.Integer(1)
            else:
                return None
        else:
            return None
    return sub


def _limit_zero(alg, V, depth=0):
    import sympy as sp
    n, d = sp.fraction(sp.cancel(sp.together(V)))
    sub_n = _subs_generators(alg, n, True)
    sub_d = _subs_generators(alg, d, True)
    if sub_n is None or sub_d is None:
        return None
    n0 = sp.cancel(n.subs(sub_n).subs(alg.x, 0))
    d0 = sp.cancel(d.subs(sub_d).subs(alg.x, 0))
    if d0 != 0:
        return sp.cancel(n0 / d0)
    if n0 != 0 or depth > 3:
        return None
    return _limit_zero(alg, sp.cancel(alg.D(n)) / sp.cancel(alg.D(d)), depth + 1)   # l'Hopital


def _limit_infinity(alg, W):
    """Limit of W = P/Q as r -> infinity when W is (constant + terms carrying 1/exp(c r^2))."""
    import sympy as sp
    n, d = sp.fraction(sp.cancel(sp.together(W)))
    INF = sp.Symbol("__INF__")
    sub = _subs_generators(alg, n * d, False)
    if sub is None:
        return None
    w = sp.cancel((n / d).subs(sub))
    # polynomial factors in r are dominated by the Gaussian: INF -> oo first
    w = sp.limit(w, INF, sp.oo) if INF in w.free_symbols else w
    if w.has(sp.oo, sp.zoo, sp.nan):
        return None
    if alg.x in w.free_symbols:
        return ("grows", sp.cancel(w))    # r V keeps depending on r: V does not decay like charge / r
    return sp.cancel(w)
