"""Analytic identity rules of C03 (R5 derivative chain, R6 inverse o forward, R7 inverse-function-theorem
formulas, R8 reference end points), decided on the algebraic normal forms of E8."""
from __future__ import annotations

import ast
import itertools
import operator
from fractions import Fraction

from gridlint.core import AnalysisError, norm, strip_docstring

CHAIN = (("transform", "deriv"), ("deriv", "deriv2"), ("deriv2", "deriv3"))
INF_TEXTS = ("np.inf", "numpy.inf", "math.inf", "float('inf')")


def _fold_guard(t, env):
    """Truth value of a constructor guard over candidate parameter values (None = not decidable)."""
    def val(e):
        if isinstance(e, ast.Constant) and isinstance(e.value, (int, float)) and not isinstance(e.value, bool):
            return Fraction(repr(e.value)) if isinstance(e.value, float) else Fraction(e.value)
        if isinstance(e, ast.Name):
            return env.get(e.id)
        if isinstance(e, ast.UnaryOp) and isinstance(e.op, ast.USub):
            v = val(e.operand)
            return None if v is None else -v
        if isinstance(e, ast.BinOp) and isinstance(e.op, (ast.Add, ast.Sub, ast.Mult)):
            a, b = val(e.left), val(e.right)
            if a is None or b is None:
                return None
            return a + b if isinstance(e.op, ast.Add) else a - b if isinstance(e.op, ast.Sub) else a * b
        return None
    if isinstance(t, ast.BoolOp):
        ks = [_fold_guard(v, env) for v in t.values]
        if isinstance(t.op, ast.Or):
            return True if True in ks else (None if None in ks else False)
        return False if False in ks else (None if None in ks else True)
    if isinstance(t, ast.UnaryOp) and isinstance(t.op, ast.Not):
        k = _fold_guard(t.operand, env)
        return None if k is None else not k
    if isinstance(t, ast.Compare):
        vals = [val(t.left)] + [val(c) for c in t.comparators]
        if any(v is None for v in vals):
            return None
        ops = {ast.Lt: operator.lt, ast.LtE: operator.le, ast.Gt: operator.gt, ast.GtE: operator.ge,
               ast.Eq: operator.eq, ast.NotEq: operator.ne}
        if any(type(o) not in ops for o in t.ops):
            return None
        return all(ops[type(o)](a, b) for o, a, b in zip(t.ops, vals, vals[1:]))
    return None


def sample_points(repo, k, alg):
    """Admissible rational sample points: parameters accepted by every `if ...: raise` guard of the
    constructor, x in the interior of the literal `_domain`.  They serve the sign normalisation of power
    bases and as *witnesses of a non-identity*; they are never evidence for an identity."""
    import sympy as sp
    init = repo.resolve_method(k, "__init__")
    body = strip_docstring(init.node.body)
    a = init.node.args
    defaults = dict(zip([x.arg for x in a.args[len(a.args) - len(a.defaults):]], a.defaults))
    params = [p for p in init.params[1:]
              if not (p in defaults and isinstance(defaults[p], ast.Constant) and isinstance(defaults[p].value, bool))]
    field_of = {}
    domain = None
    for st in body:
        if isinstance(st, ast.Assign) and isinstance(st.targets[0], ast.Attribute) and norm(st.targets[0].value) == "self":
            if isinstance(st.value, ast.Name) and st.value.id in params:
                field_of[st.value.id] = st.targets[0].attr.lstrip("_")
            if st.targets[0].attr == "_domain" and isinstance(st.value, ast.Tuple) and len(st.value.elts) == 2:
                domain = st.value.elts
    if domain is None:
        raise AnalysisError(f"unrecognised idiom: {k}.__init__ does not assign a literal `_domain` pair")
    guards = [st.test for st in body if isinstance(st, ast.If) and st.body and isinstance(st.body[-1], ast.Raise)]
    pool = [Fraction(5, 2), Fraction(3, 7), Fraction(3), Fraction(3, 2), Fraction(4), Fraction(7, 2), Fraction(1)]
    combos = []
    for combo in itertools.product(pool, repeat=len(params)):
        if len(set(combo)) < len(combo):
            continue
        env = dict(zip(params, combo))
        if any(_fold_guard(g, env) is True for g in guards):
            continue
        combos.append(env)
        if len(combos) >= 60:
            break
    if not combos and params:
        raise AnalysisError(f"no admissible parameter sample for {k} (constructor guards reject the whole pool)")
    combos = (combos[::max(1, len(combos) // 4)] or [{}])[:4]

    def end(e):
        if isinstance(e, ast.Constant) and isinstance(e.value, (int, float)):
            return Fraction(e.value)
        if isinstance(e, ast.UnaryOp) and isinstance(e.op, ast.USub) and isinstance(e.operand, ast.Constant):
            return -Fraction(e.operand.value)
        if norm(e) in INF_TEXTS:
            return None
        raise AnalysisError(f"unrecognised idiom: domain end `{norm(e)}` of {k}")
    lo, hi = end(domain[0]), end(domain[1])
    if lo is None:
        raise AnalysisError(f"unrecognised idiom: {k} has an infinite lower domain end")
    fr = (Fraction(1, 3), Fraction(4, 5), Fraction(1, 7))
    xs = [lo + (hi - lo) * f for f in fr] if hi is not None else [lo + f * 3 for f in fr]
    pts = []
    for i, env in enumerate(combos):
        for j, xv in enumerate(xs):
            if (i + j) % 2 == 0 or len(combos) == 1:
                pt = {alg.x: sp.Rational(xv.numerator, xv.denominator)}
                for p_, v in env.items():
                    pt[alg.param(field_of.get(p_, p_))] = sp.Rational(v.numerator, v.denominator)
                pts.append(pt)
    return pts, (lo, hi), field_of


def rule_identities(rep, repo, classes):
    """R5 derivative chain, R6 inverse o forward, R8 end points."""
    import sympy as sp
    from gridlint import e8
    n_proved = 0
    undecided = []
    for k in classes:
        if k == "InverseRTransform":
            continue  # generic wrapper: covered by R1/R7 (formulas over the wrapped transform)
        alg = e8.Algebra("x")
        pts, (lo, hi), field_of = sample_points(repo, k, alg)
        alg.ref = pts[0]
        F = e8.Formula(repo, k, alg)
        raw, nfs = {}, {}
        for m in ("transform", "deriv", "deriv2", "deriv3", "inverse"):
            f = repo.resolve_method(k, m)
            if f is None or f.cls == "BaseTransform":
                raise AnalysisError(f"anchor vanished: {k}.{m} is not implemented by a concrete class")
            try:
                raw[m] = F.method(m, alg.x)
            except e8.Undecided as e:
                raise AnalysisError(f"formula of {k}.{m} is outside the closed-form fragment: {e}") from e
            try:
                nfs[m] = alg.nf(raw[m])
            except e8.Undecided:
                nfs[m] = None
        # R5 derivative chain
        for fa, fb in CHAIN:
            fnode = repo.resolve_method(k, fb)
            cons = f"rtransform.{k}.{fb}"
            d = None
            if nfs[fa] is not None and nfs[fb] is not None:
                d = alg.D(nfs[fa])
                if alg.zero(d - nfs[fb]):
                    rep.ok("R5.derivative-chain", f"{k}.{fb} = d/dx {fa}", fnode.loc(),
                           "proved on the normal form: " + alg.show(nfs[fb], 110))
                    n_proved += 1
                    continue
                w = e8.witness(alg, d, nfs[fb], pts)
            else:
                w = e8.witness(alg, sp.diff(raw[fa], alg.x), raw[fb], pts, raw=True)
            if w is None:
                undecided.append(f"cannot decide whether {k}.{fb} is the derivative of {k}.{fa} (normal forms "
                                 f"differ or cannot be built, and no witness point separates them)")
                continue
            pt, va, vb = w
            rep.violation("R5.derivative-chain", cons, f"d/dx {fa}",
                          f"`{fb}` is not the derivative of `{fa}`: at {e8.show_point(pt)} the derivative of "
                          f"{k}.{fa} is {sp.N(va, 12)} but {k}.{fb} returns {sp.N(vb, 12)} (the formulas were compared as "
                          f"exact normal forms: the identity fails for general parameters, this point is one witness)",
                          fnode.loc(),
                          [f"d/dx {fa} = {alg.show(d, 300) if d is not None else '(normal form not available)'}",
                           f"{fb} = {alg.show(nfs[fb], 300) if nfs[fb] is not None else str(raw[fb])[:300]}"])
        # R6 inverse undoes forward
        fnode = repo.resolve_method(k, "inverse")
        try:
            comp_raw = F.method("inverse", raw["transform"])
        except e8.Undecided as e:
            raise AnalysisError(f"formula of {k}.inverse is outside the closed-form fragment: {e}") from e
        try:
            comp = alg.nf(comp_raw)
        except e8.Undecided:
            comp = None
        if comp is not None and alg.zero(comp - alg.x):
            rep.ok("R6.inverse-undoes-forward", f"{k}.inverse o transform", fnode.loc(),
                   "inverse(transform(x)) == x on the normal form")
            n_proved += 1
        else:
            w = e8.witness(alg, comp, alg.x, pts) if comp is not None else e8.witness(alg, comp_raw, alg.x, pts, raw=True)
            if w is None:
                undecided.append(f"cannot decide inverse(transform(x)) == x for {k}")
            else:
                pt, va, _ = w
                rep.violation("R6.inverse-undoes-forward", f"rtransform.{k}.inverse", "transform",
                          f"inverse(transform(x)) is not x: at {e8.show_point(pt)} it evaluates to {sp.N(va, 12)}",
                          fnode.loc(),
                          [f"inverse(transform(x)) = {alg.show(comp, 300) if comp is not None else str(comp_raw)[:300]}"])
        # R8 reference end points
        try:
            end_points(rep, repo, k, F, alg, lo, hi, field_of)
        except AnalysisError as e:
            undecided.append(str(e))
    rep.floor("analytic identities proved on normal forms", n_proved, 40)
    if undecided:
        raise AnalysisError("; ".join(undecided[:3]) + (f" (+{len(undecided) - 3} more)" if len(undecided) > 3 else ""))


def end_points(rep, repo, k, F, alg, lo, hi, field_of):
    """The forward map sends the reference end points (the finite domain ends; 0 and the scale point b
    for the b-scaled maps) to the ends of the literal `_codomain`.  The formula is evaluated *at* the end
    point with positive parameters (0**m = 0; log 0 and 1/0 infinite); finite images are compared on
    normal forms."""
    import sympy as sp
    from gridlint import e8
    init = repo.resolve_method(k, "__init__")
    cod = None
    for st in strip_docstring(init.node.body):
        if isinstance(st, ast.Assign) and isinstance(st.targets[0], ast.Attribute) and st.targets[0].attr == "_codomain" \
                and isinstance(st.value, ast.Tuple) and len(st.value.elts) == 2:
            cod = st.value.elts
    if cod is None:
        raise AnalysisError(f"unrecognised idiom: {k}.__init__ does not assign a literal `_codomain` pair")

    def cod_end(e):
        if norm(e) in INF_TEXTS:
            return "inf"
        if isinstance(e, ast.Name):
            return alg.param(field_of.get(e.id, e.id))
        if isinstance(e, ast.Constant) and isinstance(e.value, (int, float)):
            return sp.nsimplify(e.value)
        raise AnalysisError(f"unrecognised idiom: codomain end `{norm(e)}` of {k}")
    targets = [cod_end(e) for e in cod]
    # b-scaled maps fix their scale point with set_maximum_parameter_b (the other maps may have a shape
    # parameter that happens to be called b)
    b_scaled = "b" in init.params and repo.resolve_method(k, "set_maximum_parameter_b") is not None
    if b_scaled and hi is None:
        refs = [("0", sp.Integer(0)), ("b", alg.param("b"))]
    else:
        refs = [(str(lo), sp.Rational(lo.numerator, lo.denominator))]
        if hi is not None:
            refs.append((str(hi), sp.Rational(hi.numerator, hi.denominator)))
    fnode = repo.resolve_method(k, "transform")
    images = []
    for label, x0 in refs:
        try:
            raw = F.method("transform", x0)
        except e8.Undecided as e:
            raise AnalysisError(f"formula of {k}.transform at x={label}: {e}") from e
        raw = sp.sympify(raw)
        pos = {s_: sp.Symbol(s_.name, positive=True) for s_ in raw.free_symbols}
        back = {v: k_ for k_, v in pos.items()}
        val = raw.subs(pos)
        if val.has(sp.zoo, sp.oo, -sp.oo, sp.nan):
            images.append((label, "nan" if val.has(sp.nan) else "inf"))
            continue
        try:
            images.append((label, alg.nf(val.subs(back))))
        except e8.Undecided as e:
            raise AnalysisError(f"image of the end point x={label} under {k}.transform: {e}") from e

    def same(a, b):
        if isinstance(a, str) or isinstance(b, str):
            return isinstance(a, str) and isinstance(b, str) and a == b
        return alg.zero(a - b)
    for label, img in images:
        hit = [t for t in targets if same(img, t if isinstance(t, str) else alg.nf(t))]
        if hit:
            rep.ok("R8.end-point-images", f"{k}.transform({label})", fnode.loc(), f"-> {hit[0]}")
        else:
            rep.violation("R8.end-point-images", f"rtransform.{k}.transform", f"x={label}",
                          f"the forward map sends the reference end point x={label} to "
                          f"{img if isinstance(img, str) else alg.show(img, 120)}, which is neither end of the declared "
                          f"codomain ({', '.join(str(t) for t in targets)})", fnode.loc())
    if len(images) == 2 and not isinstance(images[0][1], str) and not isinstance(images[1][1], str) \
            and alg.zero(images[0][1] - images[1][1]):
        rep.violation("R8.end-point-images", f"rtransform.{k}.transform", "distinct",
                      "both reference end points have the same image", fnode.loc())


def rule_ift(rep, repo):
    """R7: the generic inverse-derivative formulas of BaseTransform are the inverse-function-theorem
    formulas.  With d1, d2, d3 the derivatives of the forward map at x = inverse(r):
    first 1/d1, second -d2/d1**3, third (3*d2**2 - d1*d3)/d1**5."""
    import sympy as sp
    from gridlint import e8
    for name in ("deriv_inverse", "deriv2_inverse", "deriv3_inverse"):
        alg = e8.Algebra("r")
        F = e8.Formula(repo, "BaseTransform", alg, opaque=("deriv", "deriv2", "deriv3", "inverse"))
        f = repo.method("BaseTransform", name)
        try:
            got = F.method(name, alg.x)
        except e8.Undecided as e:
            raise AnalysisError(f"BaseTransform.{name} is outside the closed-form fragment: {e}") from e
        inv_sym = None
        for (mname, arg), s_ in F.opaque_syms.items():
            if mname == "inverse" and arg == sp.srepr(alg.x):
                inv_sym = s_
        if inv_sym is None:
            raise AnalysisError(f"unrecognised idiom: BaseTransform.{name} does not evaluate inverse(r)")
        sy = {}
        for (mname, arg), s_ in F.opaque_syms.items():
            if mname != "inverse":
                if arg != sp.srepr(inv_sym):
                    rep.violation("R7.inverse-function-theorem", f"rtransform.BaseTransform.{name}", mname,
                                  f"`{mname}` of the forward map is evaluated at `{arg[:60]}` instead of at inverse(r)",
                                  f.loc())
                sy[mname] = s_
        d1, d2, d3 = (sy.get(n, sp.Symbol("unused_" + n)) for n in ("deriv", "deriv2", "deriv3"))
        want = {"deriv_inverse": 1 / d1, "deriv2_inverse": -d2 / d1 ** 3,
                "deriv3_inverse": (3 * d2 ** 2 - d1 * d3) / d1 ** 5}[name]
        if alg.zero(got - want):
            rep.ok("R7.inverse-function-theorem", f"BaseTransform.{name}", f.loc(), str(want))
        else:
            rep.violation("R7.inverse-function-theorem", f"rtransform.BaseTransform.{name}", "formula",
                          f"returns {sp.factor(got)} (deriv_k = derivatives of the forward map at inverse(r)); the "
                          f"inverse function theorem gives {want}", f.loc())
