"""Re-run every claimed quick check against every kept seeded change (patch applied to a scratch
worktree of /repo) and refresh `detected_now_by` in seeded/<id>/meta.json.  Prints the matrix."""
import json
import os
import subprocess
import sys
import tempfile

HERE = os.path.dirname(os.path.abspath(__file__))


def sh(cmd, cwd=None, timeout=900):
    r = subprocess.run(cmd, shell=True, cwd=cwd, capture_output=True, text=True, timeout=timeout)
    return r.returncode, r.stdout + r.stderr


def main():
    only = sys.argv[1:]
    props = subprocess.run("./check --list", shell=True, cwd=HERE, capture_output=True, text=True).stdout.split()
    rows = []
    for sid in sorted(os.listdir(os.path.join(HERE, "seeded"))):
        d = os.path.join(HERE, "seeded", sid)
        if only and sid not in only:
            continue
        if not os.path.isfile(os.path.join(d, "patch.diff")):
            continue
        wt = tempfile.mkdtemp(prefix="redetect_wt_")
        os.rmdir(wt)
        rc, o = sh(f"git -C /repo worktree add -q --detach {wt} HEAD")
        assert rc == 0, o
        try:
            rc, o = sh(f"git apply --whitespace=nowarn {os.path.join(d, 'patch.diff')}", cwd=wt)
            if rc != 0:
                rc, o = sh(f"git apply -3 --whitespace=nowarn {os.path.join(d, 'patch.diff')}", cwd=wt)
            if rc != 0:
                rows.append((sid, "PATCH DOES NOT APPLY", {}))
                continue
            det = {}
            for p in props:
                rc, o = sh(f"GRIDLINT_NO_EVIDENCE=1 ./check {p} --tier quick --root {wt}", cwd=HERE)
                if rc != 0:
                    lines = [ln for ln in o.splitlines() if ln.startswith("  rule=") or "ANALYSIS-ERROR" in ln]
                    det[p] = {"exit": rc, "report": [ln.strip()[:220] for ln in lines[:4]]}
        finally:
            sh(f"git -C /repo worktree remove --force {wt}")
        mp = os.path.join(d, "meta.json")
        meta = json.load(open(mp))
        meta["detected_now_by"] = det
        json.dump(meta, open(mp, "w"), indent=1)
        rows.append((sid, "ok", det))
    for sid, st, det in rows:
        print(f"{sid:10s} {st:8s} " + (", ".join(f"{k}:exit{v['exit']}" for k, v in det.items()) or "-- not detected --"))


if __name__ == "__main__":
    main()
