"""Import a confirmed seeded change into /verif/seeded/<id>/.

usage: python3 tools_import_seeded.py <seed dir> <eval json> <id> "<first-contact verdict>"

Keeps the change only when the evaluation JSON shows: demo exits 0 without the patch, non-zero with
it, and the unedited suite passes (598 passed) with it.
"""
import json
import os
import shutil
import sys


def main():
    sd, ev, sid, first = sys.argv[1:5]
    e = json.load(open(ev))
    ok = e.get("demo_without_patch_rc") == 0 and e.get("demo_with_patch_rc", 0) != 0 and \
        "598 passed" in e.get("suite_tail", "") and "failed" not in e.get("suite_tail", "")
    if not ok:
        print("NOT CONFIRMED", sid, {k: e.get(k) for k in ("demo_without_patch_rc", "demo_with_patch_rc", "suite_tail")})
        return 1
    dst = os.path.join(os.path.dirname(os.path.abspath(__file__)), "seeded", sid)
    os.makedirs(dst, exist_ok=True)
    shutil.copy(os.path.join(sd, "patch.diff"), dst)
    shutil.copy(os.path.join(sd, "demo.py"), dst)
    meta = {}
    mp = os.path.join(sd, "meta.json")
    if os.path.exists(mp):
        try:
            meta = json.load(open(mp))
        except Exception:  # noqa: BLE001
            meta = {"raw": open(mp).read()[:2000]}
    prop = sid.split("-")[0]
    det = e.get("detected_by", {})
    meta_out = {
        "id": sid,
        "property_broken": meta.get("property", prop),
        "summary": meta.get("summary", ""),
        "needs_to_manifest": meta.get("needs_to_manifest", ""),
        "files_touched": meta.get("files_touched", []),
        "author": "independent sub-agent given only the property text and a scratch worktree",
        "confirmed_by_me": {
            "what_i_ran": [
                "git -C /repo worktree add --detach <scratch> HEAD",
                "PYTHONPATH=<scratch>/src python demo.py            # exit 0 on the unchanged tree",
                "git apply patch.diff; PYTHONPATH=<scratch>/src python demo.py   # non-zero with the change",
                "PYTHONPATH=<scratch>/src python -m pytest -q -p no:cacheprovider -n 12 src/grid/tests",
                "./check <every claimed id> --tier quick --root <scratch>",
                "git -C /repo worktree remove --force <scratch>",
            ],
            "demo_rc_without_patch": e["demo_without_patch_rc"],
            "demo_rc_with_patch": e["demo_with_patch_rc"],
            "suite_with_patch": e["suite_tail"],
        },
        "verdict_at_first_contact": first,
        "detected_now_by": {k: {"exit": v["rc"], "report": v["lines"][:4]} for k, v in det.items()},
    }
    json.dump(meta_out, open(os.path.join(dst, "meta.json"), "w"), indent=1)
    print("imported", sid, "detected by", {k: v["rc"] for k, v in det.items()})
    return 0


if __name__ == "__main__":
    sys.exit(main())
