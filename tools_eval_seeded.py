"""Confirm a seeded change and run the checks against it.

usage: python3 tools_eval_seeded.py <dir with patch.diff demo.py meta.json> [--no-suite] [--props C20,C19]

1. confirmation in a scratch worktree of /repo (outside /repo and /verif, removed afterwards):
   demo passes without the patch, fails with it, the unedited suite passes with it;
2. detection: every quick check is run with --root <the patched scratch worktree>.
Prints a JSON summary.
"""
import json
import os
import subprocess
import sys
import tempfile

PY = "/venv/bin/python"


def sh(cmd, cwd=None, timeout=3600, env=None):
    e = dict(os.environ)
    if env:
        e.update(env)
    r = subprocess.run(cmd, shell=True, cwd=cwd, capture_output=True, text=True, timeout=timeout, env=e)
    return r.returncode, (r.stdout + r.stderr)


def main():
    d = os.path.abspath(sys.argv[1])
    suite = "--no-suite" not in sys.argv
    props = None
    for a in sys.argv[2:]:
        if a.startswith("--props"):
            props = a.split("=", 1)[1].split(",")
    patch = os.path.join(d, "patch.diff")
    demo = os.path.join(d, "demo.py")
    out = {"dir": d}
    wt = tempfile.mkdtemp(prefix="confirm_wt_")
    os.rmdir(wt)
    rc, o = sh(f"git -C /repo worktree add -q --detach {wt} HEAD")
    assert rc == 0, o
    try:
        env = {"PYTHONPATH": os.path.join(wt, "src")}
        rc0, o0 = sh(f"timeout 900 {PY} -W ignore {demo}", cwd=wt, env=env, timeout=1000)
        out["demo_without_patch_rc"] = rc0
        rc, o = sh(f"git apply --whitespace=nowarn {patch}", cwd=wt)
        out["patch_applies"] = rc == 0
        if rc != 0:
            out["apply_error"] = o[-400:]
            print(json.dumps(out, indent=1))
            return 1
        rc1, o1 = sh(f"timeout 900 {PY} -W ignore {demo}", cwd=wt, env=env, timeout=1000)
        out["demo_with_patch_rc"] = rc1
        out["demo_with_patch_tail"] = o1[-300:]
        if suite:
            rc, o = sh(f"timeout 3000 {PY} -m pytest -q -p no:cacheprovider --timeout=900 -n 12 src/grid/tests 2>&1 | tail -3",
                       cwd=wt, env=env, timeout=3100)
            out["suite_tail"] = o.strip().splitlines()[-1] if o.strip() else ""
        # detection: the checks are pointed at the patched scratch worktree (equivalent to applying
        # the patch to /repo and restoring it, without disturbing concurrent work on /repo)
        det = {}
        lst = props or subprocess.run("./check --list", shell=True, cwd="/verif", capture_output=True, text=True).stdout.split()
        for p in lst:
            rc, o = sh(f"GRIDLINT_NO_EVIDENCE=1 ./check {p} --tier quick --root {wt}", cwd="/verif", timeout=600)
            if rc != 0:
                lines = [ln for ln in o.splitlines() if ln.startswith("VIOLATION") or ln.startswith("  rule=") or "ANALYSIS-ERROR" in ln]
                det[p] = {"rc": rc, "lines": lines[:6]}
    finally:
        sh(f"git -C /repo worktree remove --force {wt}")
    out["detected_by"] = det
    print(json.dumps(out, indent=1))
    return 0


if __name__ == "__main__":
    sys.exit(main())
