"""Source of truth for MANIFEST.json (run tools_gen_manifest.py with python3-vt after editing)."""
ENGINES = [
    {"name": "gridlint", "path": "gridlint/", "serves_properties": [],
     "kind_free_text": "repository-specific static analyses over the ast of /repo/src/grid and its shipped tables"},
]
NOTES = ("Static-analysis family only. Every check parses /repo/src/grid on each run; nothing in the "
         "package is imported or executed. Exit codes: 0 holds / only known findings, 1 VIOLATION, "
         "2 ANALYSIS-ERROR (undecided).")
_NOTE = ("Trusted base: CPython's ast parser; the library model of NumPy/SciPy callees in gridlint/e2.py; "
         "closed world (no user subclasses, no dynamic attribute access - the loader fails the run if one appears).")
CHECKS = [
 {"id": "C02", "engine": "gridlint", "design_ref": "DESIGN.md 4/C02",
  "technique": "static table/inventory analysis: constant-folded tables x string-dispatch extraction x npz header inventory",
  "text": "Decides the labelling/shape clause only: every advertised (method, degree, size) is backed by exactly the file the loader opens, with the members it reads, points of shape (size,3), weights of shape (size,) or (1,), embedded labels equal to the name; the three dispatch chains agree and map methods to caches injectively. Exhaustive over all 450 table entries. Does NOT decide unit sphere / exactness / sum of weights (numerical; arrays are never loaded).",
  "note": _NOTE + " npy headers are trusted to describe the stored arrays."},
 {"id": "C12", "engine": "gridlint", "design_ref": "DESIGN.md 4/C12",
  "technique": "static proof by rule: sortedness of constant-folded tables + recognised lower-bound (bisect_left) idiom + guard/return shape",
  "text": "Decides the whole statement for all integer requests at once: tables strictly ascending and mutually inverse, resolver bisects list(keys()) of the dispatched table behind a range guard and returns the matching pair, every pair has its data file, the sequence converter is element-wise consistent, constructors store resolved values. An unrecognised lookup idiom yields exit 2 (undecided), never a pass.",
  "note": _NOTE + " Contract of bisect.bisect_left and dict insertion order."},
 {"id": "C17", "engine": "gridlint", "design_ref": "DESIGN.md 4/C17",
  "technique": "static table<->loader agreement (keys subscripted by the loader vs shipped JSON entries)",
  "text": "Decides only the clause 'every shipped per-element parameter set loads as matching arrays of positive exponents' (keys, equal lengths, positive finite exponents, reachable symbols, fresh conversion). The analytic exactness of the s/p potential formulas is NOT decided (algebraic identity, outside static analysis).",
  "note": _NOTE},
 {"id": "C19", "engine": "gridlint", "design_ref": "DESIGN.md 4/C19",
  "technique": "static ownership/escape analysis of module-level state (abstract interpretation, whole-package fixpoint) + typestate rules on the set-once scale",
  "text": "Decides for every history of calls: objects stored in the angular caches / Coulomb table never reach an instance field or return value without a copy or freeze barrier and are never written in place; cache dispatch injective and keyed by the resolved degree; inferred scale written only under `is None` and fixed before every use; no other transform field written after construction. Sound up to the library model; numerical equality of values is not computed.",
  "note": _NOTE},
 {"id": "C20", "engine": "gridlint", "design_ref": "DESIGN.md 4/C20",
  "technique": "static alias/effect analysis: may-alias abstract interpretation with parametric summaries over every public entry; candidate accounting of all in-place constructs",
  "text": "Decides the property for all public entries and all aliasing patterns: no in-place construct of the package (172 enumerated syntactically, each classified) is reachable by a caller-supplied object or by a value returned from a user callback, on any path. Over-approximation (may-alias), so a pass is a proof under the stated library model; a report carries the witness call path.",
  "note": _NOTE},
]
_PENDING = "checker designed in DESIGN.md but not yet built in this commit"
NOT_APPLICABLE = [
    {"property_id": "C01", "reason": "Exactness/ordering of quadrature rules for all n is numerical; the defective Fejer series bounds can only be recognised with the mathematics of the rule (CAS or experiment); no structural clause adds to the tests."},
    {"property_id": "C08", "reason": "Values, normalisation and derivatives of spherical harmonics are numerical; agreement of the six (l,m)->row encodings cannot be decided without evaluating them."},
    {"property_id": "C09", "reason": "Exact recovery of band-limited functions and derivative consistency of spline x harmonic interpolants are numerical."},
    {"property_id": "C15", "reason": "Accuracy of ODE solutions and the Bell-polynomial coefficient transformation are numerical/algebraic; the in-place update found in this file is decided under C20."},
    {"property_id": "C16", "reason": "Accuracy and linearity of Poisson solutions are numerical; the option-dictionary write is decided under C20."},
] + [{"property_id": p, "reason": _PENDING} for p in
     ["C03", "C04", "C05", "C06", "C07", "C10", "C11", "C13", "C14", "C18"]]
