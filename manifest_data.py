"""Source of truth for MANIFEST.json (run tools_gen_manifest.py with python3-vt after editing)."""
ENGINES = [
    {"name": "gridlint", "path": "gridlint/", "serves_properties": [],
     "kind_free_text": "repository-specific static analyses over the ast of /repo/src/grid and its shipped tables"},
]
NOTES = ("Static-analysis family only. Every check parses /repo/src/grid on each run; nothing in the "
         "package is imported or executed. Exit codes: 0 holds / only known findings, 1 VIOLATION, "
         "2 ANALYSIS-ERROR (undecided).")
_NOTE = ("Trusted base: CPython's ast parser; the library model of NumPy/SciPy callees in gridlint/e2.py; "
         "closed world (no user subclasses, no dynamic attribute access - the loader fails the run if one appears).")
CHECKS = [
 {"id": "C02", "engine": "gridlint", "design_ref": "DESIGN.md 4/C02",
  "technique": "static table/inventory analysis: constant-folded tables x string-dispatch extraction x npz header inventory",
  "text": "Decides the labelling/shape clause only: every advertised (method, degree, size) is backed by exactly the file the loader opens, with the members it reads, points of shape (size,3), weights of shape (size,) or (1,), embedded labels equal to the name; the three dispatch chains agree and map methods to caches injectively. Exhaustive over all 450 table entries. Does NOT decide unit sphere / exactness / sum of weights (numerical; arrays are never loaded).",
  "note": _NOTE + " npy headers are trusted to describe the stored arrays."},
 {"id": "C12", "engine": "gridlint", "design_ref": "DESIGN.md 4/C12",
  "technique": "static proof by rule: sortedness of constant-folded tables + recognised lower-bound (bisect_left) idiom + guard/return shape",
  "text": "Decides the whole statement for all integer requests at once: tables strictly ascending and mutually inverse, resolver bisects list(keys()) of the dispatched table behind a range guard and returns the matching pair, every pair has its data file, the sequence converter is element-wise consistent (positions selected on the request sequence, never on the array being rewritten), a request of exactly zero is not rejected by any validation guard of the resolver (three-valued guard evaluation), constructors store resolved values. An unrecognised lookup idiom yields exit 2 (undecided), never a pass.",
  "note": _NOTE + " Contract of bisect.bisect_left and dict insertion order."},
 {"id": "C17", "engine": "gridlint", "design_ref": "DESIGN.md 4/C17",
  "technique": "static table<->loader agreement (keys subscripted by the loader vs shipped JSON entries) + static formula analysis (algebraic normal forms with an erf generator) of the two Gaussian-potential routines",
  "text": "Decides (a) 'every shipped per-element parameter set loads as matching arrays of positive exponents' (keys, equal lengths, positive finite exponents, reachable symbols, fresh conversion) and (b), for all alpha and r at once on the source formulas, that the s- and p-type routines (normalised and unnormalised) return the potential of the density they document: radial Poisson identity (r V)'' = -4 pi r rho, the value returned below the small-r threshold equals the r -> 0 limit of the formula, r V tends to the total charge.  Two known findings: the p-type formula (both variants) is not the potential of its documented density; a test pins it.  Does NOT decide how far an r-dependent small-r expansion may be used, nor the numerical superposition.",
  "note": _NOTE},
 {"id": "C19", "engine": "gridlint", "design_ref": "DESIGN.md 4/C19",
  "technique": "static ownership/escape analysis of module-level state (abstract interpretation, whole-package fixpoint) + typestate rules on the set-once scale",
  "text": "Decides for every history of calls: objects stored in the angular caches / Coulomb table never reach an instance field or return value without a copy or freeze barrier and are never written in place; cache dispatch injective and keyed by the resolved degree; inferred scale written only under `is None` and fixed before every use; no other transform field written after construction. Sound up to the library model; numerical equality of values is not computed.",
  "note": _NOTE},
 {"id": "C20", "engine": "gridlint", "design_ref": "DESIGN.md 4/C20",
  "technique": "static alias/effect analysis: may-alias abstract interpretation with parametric summaries over every public entry; candidate accounting of all in-place constructs",
  "text": "Decides the property for all public entries and all aliasing patterns: no in-place construct of the package (172 enumerated syntactically, each classified) is reachable by a caller-supplied object or by a value returned from a user callback, on any path. Over-approximation (may-alias), so a pass is a proof under the stated library model; a report carries the witness call path.",
  "note": _NOTE},
]

CHECKS += [
 {"id": "C01", "engine": "gridlint", "design_ref": "DESIGN.md 4/C01",
  "technique": "static formula analysis: constructors of the variable-substitution quadratures translated from their syntax trees into algebraic normal forms (exp/log/hyperbolic/sqrt generators), differentiated with respect to the index array and compared as normal forms",
  "text": "Decides ONE clause of the statement: for the rules defined by a change of variable sampled at equidistant t = k h (TanhSinh, ExpSinh, LogExpSinh, ExpExp, SingleTanh, SingleExp, SingleArcSinhExp) the weights are the step times the derivative of the node map at each node -- proved for all step sizes and all k at once as a polynomial identity of normal forms; the Trefethen maps satisfy _derg2 = _g2', _derg3 = _g3', _dergstrip (interior branch) = d _gstrip/ds, and every Trefethen class pairs a map with the derivative of the same map at the same nodes.  Does NOT decide exactness on polynomial classes, ordering of nodes, nodes inside the domain, the Gauss/Fejer/Clenshaw-Curtis rules or the end-point branch of the strip map (numerical; in particular the defective Fejer series bounds are out of reach).",
  "note": _NOTE + " sympy serves as a polynomial-arithmetic library. The index array np.arange(...) is taken as a unit-step variable."},
 {"id": "C03", "engine": "gridlint", "design_ref": "DESIGN.md 4/C03",
  "technique": "static formula analysis: the closed-form methods are translated from their syntax trees into algebraic normal forms (quotients of polynomials over power/log/exp generators with irreducible bases), differentiated and compared as normal forms (zero polynomial = proof for all parameters); plus sibling value numbering, definite assignment and typestate rules",
  "text": "Decides, for all parameter values at once, on the source formulas of the 11 concrete transform classes: deriv/deriv2/deriv3 are the successive derivatives of transform (33 identities), inverse(transform(x)) = x (11), the generic inverse-derivative formulas are the inverse-function-theorem formulas and are identical in both copies, the finite reference end points (domain ends; 0 and b for the b-scaled maps) are sent to the ends of the declared codomain; _domain/_codomain definitely assigned; trim_inf stored and honoured, _convert_inf two-sided; transforms stateless apart from the set-once scale. A non-identity is reported only together with an admissible rational witness point at which the two formulas differ. Does NOT decide monotonicity or the behaviour at the infinite ends beyond 'the image is infinite'. Found and repaired: HandyModRTransform.deriv3 (wrong for every m other than 1, 2).",
  "note": _NOTE + " sympy serves as a polynomial-arithmetic library (factor_list, cancel, diff); no heuristic simplifier is used. Power bases are assumed positive on the interior of the domain (checked at a reference point)."},
 {"id": "C04", "engine": "gridlint", "design_ref": "DESIGN.md 4/C04",
  "technique": "static def-use/value-graph shape of one function + sign abstract domain over closed-form derivatives",
  "text": "Decides the data-flow shape of transform_1d_grid: nodes = transform(nodes), weights = weights x Jacobian at the same nodes, Jacobian through a magnitude when a decreasing map is shipped, domain = ordered image, precondition and containment check armed. One known finding (signed Jacobian, pinned by a test). Does NOT decide exactness transport or numeric values.",
  "note": _NOTE + " Sign assumptions: R,k,m,a,b,rmin,rmax>0, rmax>rmin, x in (-1,1)."},
 {"id": "C05", "engine": "gridlint", "design_ref": "DESIGN.md 4/C05",
  "technique": "static table<->branch agreement with a literal guard interpreter over npz headers/small tables + sibling value graphs",
  "text": "Decides: every (preset, element) pair of the 17 shipped archives fits the branch of from_preset it is routed to (1374 pairs, exhaustive); the stored shell and get_shell_grid are the same computation incl. rotation seed; the centre is added once on read; rotations are seeded from rotate; preset sizes are passed as sizes; the shell index table accumulates the appended shell sizes; binary searches in the sector assignment only run over data whose order is established in the same function (the radial points of the caller are not ordered). One known finding (malformed SG-3 silicon table). Does NOT decide numeric points/weights or factorisation of integrals.",
  "note": _NOTE + " Preset tables are read as configuration tables (compare/len/sum only)."},
 {"id": "C06", "engine": "gridlint", "design_ref": "DESIGN.md 4/C06",
  "technique": "static sibling-agreement by value numbering of the duplicated Becke pipelines + guard rules + index-space inference (a dimension-type system for axis 0)",
  "text": "Decides the clause 'all evaluation routes return identical numbers' structurally (equal value graphs of the whole-grid and per-atom pipelines, same segment pairing) and two guards (chunk table shifted by the chunk start and clipped at zero; heteronuclear parameter clipped on both sides below 1/2; a uniform stride over np.array_split chunks is a known-wrong offset), the Hirshfeld share (every pro-atom enters the pro-molecule, own segment takes own pro-atom, one division after the loop) and index-space consistency in becke.py/hirshfeld.py (no per-atom array addressed by the counter of an enumerated selection or by a doubly applied permutation). Does NOT decide bounds, partition of unity, invariances, Hirshfeld (numerical).",
  "note": _NOTE},
 {"id": "C07", "engine": "gridlint", "design_ref": "DESIGN.md 4/C07",
  "technique": "static def-use fan-out analysis + provenance tags (atomic vs atomic x aim) on store-dependent branches + value graphs of the constructor loop + index-space inference",
  "text": "Decides: the convenience constructors forward every argument to the atomic constructor / cls(...) without crossing the per-atom list/dict dispatch; methods branching on the store flag return weights of the same provenance (one known finding: __getitem__); the constructor concatenates by the index table and applies aim weights once; no per-atom value is carried from one atom to the next; per-atom sequences in molgrid.py are addressed in the index space of the atoms. Does NOT decide numerical equality or the 1% accuracy clause.",
  "note": _NOTE},
 {"id": "C10", "engine": "gridlint", "design_ref": "DESIGN.md 4/C10",
  "technique": "static class-state analysis: definite field assignment over the MRO, memo-invalidation typestate, property/raw-field rule",
  "text": "Decides for all 35 concrete Grid classes x all visible methods and for all histories of queries/reassignments: no read of an unassigned field, no raw-field read under an overridden property, every writer of a memo's dependency resets the memo, index arrays from ball queries are integer or guarded, __getitem__ admits NumPy integers and re-wraps with all stored parameters, both radius branches use the same sources. The geometric content of the ball query is delegated to cKDTree.",
  "note": _NOTE},
 {"id": "C11", "engine": "gridlint", "design_ref": "DESIGN.md 4/C11",
  "technique": "static guard-dominance + sign abstract domain + array-shape abstract interpretation over all (dimension x lattice-count x wrap) configurations",
  "text": "Decides: the constructor and the pre-loop part of get_localgrid are free of broadcast/matmul/index/empty-reduction failures and keep one row per lattice vector in all 21 admissible shape configurations (flat 1-D or (N,D) points, 0..D lattice vectors, wrap on/off); and three guards: accumulators that can be empty are tested before stacking (empty spheres), plane spacings provably non-negative (any sign of lattice vectors), no argument rejection beyond the plain grid without lattice vectors (one known finding: infinite radius, pinned by a test). Does NOT decide completeness/uniqueness of the image enumeration (geometric).",
  "note": _NOTE},
 {"id": "C13", "engine": "gridlint", "design_ref": "DESIGN.md 4/C13",
  "technique": "static guard-dominance analysis of third-axis constructs + symbolic array-shape abstract interpretation (per dimensionality) of the weight schemes + symbolic stride tables of the index maps",
  "text": "Decides the clause 'every documented weighting scheme (and the index maps) construct in both dimensions': every construct that only exists in 3-D is dominated by a test implying ndim == 3; and the tensor-layout clause for weights: in 2-D and 3-D every scheme returns the C-order flattening of an array with axes (shape[0], shape[1][, shape[2]]) (or a uniform vector), Tensor1DGrids krons its weights in the meshgrid('ij') order of its points; the forward index map multiplies by the row-major strides (n1*n2, n2, 1)/(n1, 1), evaluated symbolically per dimensionality, and the inverse map divides by the same table (the divisors of the floor divisions / divmod executed for that dimensionality); both exits of the cube-file reader construct the grid from the same values (a unit conversion applied on one exit only is reported); the origin of the molecule-enclosing grid must depend on the lower/upper bound of the atomic coordinates other than through the point counts (necessary for containing every nucleus with the requested margin; one known finding: the box is centred on the centre of charge, a test pins it). Does NOT decide weights summing to the volume, nearest point, molecule margin, cube round trip, interpolation (numerical).",
  "note": _NOTE},
 {"id": "C14", "engine": "gridlint", "design_ref": "DESIGN.md 4/C14",
  "technique": "static name resolution of third-party references + symbolic row streams of the order generator compared as terms with the documented Horton order + dispatch agreement + array-shape abstract interpretation of the moment routine for dimensions 1-3",
  "text": "Decides: the Cartesian and radial moment code is free of broadcast/unpack/index failures for 1-, 2- and 3-dimensional grids and hard-wires no column count; every NumPy/SciPy/SymPy attribute reference of the package resolves in the installed versions (~890 references); every (type, dim) branch of the order generator appends rows of the right width and returns the row table (dims 1, 2, 3); the rows of every branch are generated in the documented Horton order for every value of `order` (loop/comprehension structure normalised to a stream term, no enumeration); Grid.moments and the generator agree on the moment types and each type computes its integral once. Does NOT decide that entries equal the quadrature of their integrands.",
  "note": _NOTE + " The checker imports numpy/scipy/sympy (never grid) to resolve names."},
 {"id": "C18", "engine": "gridlint", "design_ref": "DESIGN.md 4/C18",
  "technique": "static sibling-agreement by value numbering under the points<->weights substitution",
  "text": "Decides lock-step enumeration: points and weights properties, the partial combinations of the vectorised route, the chunk streams of the point-by-point route and the reported size all describe the same product in the same order; the accumulation loops over paired points and weights take every pair (no break / conditional skip other than an exactly-zero weight). Does NOT decide numerical equality of the three routes.",
  "note": _NOTE + " itertools.product order is the documented lexicographic order."},
]

_PENDING = "checker designed in DESIGN.md but not yet built in this commit"
NOT_APPLICABLE = [
    {"property_id": "C08", "reason": "Values, normalisation and derivatives of spherical harmonics are numerical; agreement of the six (l,m)->row encodings cannot be decided without evaluating them."},
    {"property_id": "C09", "reason": "Exact recovery of band-limited functions and derivative consistency of spline x harmonic interpolants are numerical."},
    {"property_id": "C15", "reason": "Accuracy of ODE solutions and the Bell-polynomial coefficient transformation are numerical/algebraic; the in-place update found in this file is decided under C20."},
    {"property_id": "C16", "reason": "Accuracy and linearity of Poisson solutions are numerical; the option-dictionary write is decided under C20."},
]
