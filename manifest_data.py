"""Source of truth for MANIFEST.json (run tools_gen_manifest.py with python3-vt after editing)."""
ENGINES = [
    {"name": "gridlint", "path": "gridlint/", "serves_properties": [],
     "kind_free_text": "repository-specific static analyses over the ast of /repo/src/grid and its shipped tables"},
]
NOTES = ("Static-analysis family only. Every check parses /repo/src/grid on each run; nothing in the "
         "package is imported or executed. Exit codes: 0 holds / only known findings, 1 VIOLATION, "
         "2 ANALYSIS-ERROR (undecided).")
CHECKS = []
_PENDING = "checker designed in DESIGN.md but not yet built in this commit"
NOT_APPLICABLE = [
    {"property_id": "C01", "reason": "Exactness/ordering of quadrature rules for all n is numerical; the defective Fejer series bounds can only be recognised with the mathematics of the rule (CAS or experiment); no structural clause adds to the tests."},
    {"property_id": "C08", "reason": "Values, normalisation and derivatives of spherical harmonics are numerical; agreement of the six (l,m)->row encodings cannot be decided without evaluating them."},
    {"property_id": "C09", "reason": "Exact recovery of band-limited functions and derivative consistency of spline x harmonic interpolants are numerical."},
    {"property_id": "C15", "reason": "Accuracy of ODE solutions and the Bell-polynomial coefficient transformation are numerical/algebraic; the in-place update found in this file is decided under C20."},
    {"property_id": "C16", "reason": "Accuracy and linearity of Poisson solutions are numerical; the option-dictionary write is decided under C20."},
] + [{"property_id": p, "reason": _PENDING} for p in
     ["C02", "C03", "C04", "C05", "C06", "C07", "C10", "C11", "C12", "C13", "C14", "C17", "C18", "C19", "C20"]]
