"""Regenerate the table of seeded changes in DESIGN.md (section 9.6) from /verif/seeded/*/meta.json.

usage: python3 tools_design_matrix.py     (rewrites the rows between the table header and the next blank line)
"""
import json
import os
import re

HERE = os.path.dirname(os.path.abspath(__file__))


def rows():
    out = []
    sd = os.path.join(HERE, "seeded")

    def key(s):
        p, k = s.split("-")
        return (p, int(k))
    for sid in sorted(os.listdir(sd), key=key):
        m = json.load(open(os.path.join(sd, sid, "meta.json")))
        first = m.get("verdict_at_first_contact", "")
        fl = first.lower()
        if fl.startswith("not detected") or fl.startswith("not_detected"):
            f = "not detected (declined clause)" if "declin" in fl or "by design" in fl else "missed"
        elif fl.startswith("missed"):
            f = "missed"
        elif fl.startswith("undecided"):
            f = "undecided (exit 2)"
        elif fl.startswith("detected"):
            f = "detected"
        else:
            f = first.split(":")[0][:40]
        det = []
        for p, d in sorted((m.get("detected_now_by") or {}).items()):
            if d.get("exit") == 1:
                rules = sorted({ln.split("rule=")[1].split()[0] for ln in d.get("report", []) if "rule=" in ln})
                det.append(f"{p} ({', '.join(rules[:2])})")
        summ = " ".join(m.get("summary", "").split())[:150].replace("|", "/")
        out.append(f"| {sid} | {summ} | {f} | {', '.join(det) if det else '—'} |")
    return out


def main():
    p = os.path.join(HERE, "DESIGN.md")
    s = open(p, encoding="utf-8").read()
    hdr = "| id | change (author: independent sub-agent) | first contact | detected now by |\n|---|---|---|---|\n"
    a = s.index(hdr) + len(hdr)
    b = re.search(r"\n\n", s[a:]).start() + a
    s = s[:a] + "\n".join(rows()) + s[b:]
    open(p, "w", encoding="utf-8").write(s)
    print(f"{len(rows())} rows written")


if __name__ == "__main__":
    main()
